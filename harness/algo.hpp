// Algorithm / construction part of the conformance harness (C07 searches, C08-C12, C19):
// runs the real functions on cases enumerated by the specification (Derived.tla,
// Search.tla) and either compares with the result the specification computed
// (deterministic constructions) or produces a record for TLC to validate
// (searches and remaps, whose results are not unique).
#ifndef VERIF_ALGO_HPP
#define VERIF_ALGO_HPP

#include "objects.hpp"

#include "BaseGraph/algorithms/paths.hpp"
#include "BaseGraph/algorithms/topology.hpp"

#include <algorithm>
#include <deque>
#include <functional>
#include <list>
#include <map>
#include <random>
#include <set>
#include <unordered_set>

namespace verif {

struct CaseResult {
    bool ok = true;
    std::string why;
    json records = json::array(); // records for TLC (code -> spec)
    // behaviour the specification models but no listed property speaks of (e.g. the text
    // written by operator<<): a difference is reported in the evidence, never as a violation
    std::vector<std::string> diagnostics;
    void fail(const std::string &w) {
        if (ok)
            why = w;
        ok = false;
    }
};

struct IAlgoFamily {
    virtual ~IAlgoFamily() {}
    virtual std::string name() const = 0;
    virtual bool handles(const std::string &kind) const = 0;
    virtual CaseResult run(const json &c, unsigned seed) = 0;
};
// options of this run (from the plan), e.g. "recon": also call the path reconstruction helper
// with explicit sources (valid use that belongs to C17, not to C11's listed entry points)
inline json &runOptions() {
    static json o = json::object();
    return o;
}
inline std::vector<std::unique_ptr<IAlgoFamily>> &algoFamilies() {
    static std::vector<std::unique_ptr<IAlgoFamily>> v;
    return v;
}

// ---------------------------------------------------------------- building inputs
// Construct a real graph whose projection is the given GraphOps!Enc value.  `order`
// 0 inserts the edges in ascending cell order, otherwise in a seeded random order (the
// neighbour-list order is not part of the abstract value).
template <class G> G buildFromEnc(const json &e, unsigned order) {
    using I = GInfo<G>;
    const size_t n = e.at("n").get<size_t>();
    G g(n);
    std::vector<std::pair<VertexIndex, VertexIndex>> cells;
    for (VertexIndex i = 0; i < n; ++i)
        for (VertexIndex j = 0; j < n; ++j) {
            if (!I::directed && i > j)
                continue;
            int copies = e.at("adj")[i][j].get<int>();
            for (int k = 0; k < copies; ++k)
                cells.push_back({i, j});
        }
    if (order) {
        std::mt19937 rng(order);
        std::shuffle(cells.begin(), cells.end(), rng);
    }
    std::set<std::pair<VertexIndex, VertexIndex>> seen;
    for (auto &c : cells) {
        bool force = !seen.insert(c).second;
        int a = e.at("lab")[c.first][c.second].get<int>();
        VertexIndex i = c.first, j = c.second;
        if (order && !I::directed && (order + i + j) % 2) // name undirected pairs in either orientation
            std::swap(i, j);
        if constexpr (I::kind == KindTag::Labeled)
            g.addEdge(i, j, Lab<G>::enc(a == NONE_L ? 0 : a), force);
        else if constexpr (I::kind == KindTag::Multi)
            g.addMultiedge(i, j, (unsigned)a, force);
        else
            g.addEdge(i, j, (double)a, force);
    }
    return g;
}

template <class G> json encOf(const G &g) { return Obj<G>(g).enc(); }

// The input of a case is built with the class's own mutators.  If the object then does not show
// the value the specification asked for, some mutator is defective - the subject of another
// property - and the case says nothing about the function under test: it is skipped (noted).
template <class G> bool inputAsSpecified(const G &g, const json &want, CaseResult &r) {
    if (encOf(g) == want)
        return true;
    r.diagnostics.push_back("input graph could not be constructed as specified (case skipped)");
    return false;
}

inline std::string diffNote(const json &exp, const json &act) {
    return "expected " + exp.dump() + " got " + act.dump();
}

constexpr long long SENT = -1; // BASEGRAPH_VERTEX_MAX / +infinity in records (TLC ints are 32 bit)
inline long long sent(size_t v) { return v == algorithms::BASEGRAPH_VERTEX_MAX ? SENT : (long long)v; }

struct ScanCapExceeded : std::runtime_error {
    ScanCapExceeded() : std::runtime_error("scan cap exceeded") {}
};
struct ScanCounter {
    mutable size_t scans = 0;
    size_t cap = (size_t)-1;
    void tick() const {
        if (++scans > cap)
            throw ScanCapExceeded();
    }
};
// The searches are templates over the graph type: a derived type whose getOutNeighbours
// counts the calls observes "scanning a vertex neighbourhood" without any source hook.
template <class L> struct CountD : LabeledDirectedGraph<L>, ScanCounter {
    using LabeledDirectedGraph<L>::LabeledDirectedGraph;
    CountD(const LabeledDirectedGraph<L> &g) : LabeledDirectedGraph<L>(g) {}
    const Successors &getOutNeighbours(VertexIndex v) const {
        tick();
        return LabeledDirectedGraph<L>::getOutNeighbours(v);
    }
};
template <class L> struct CountU : LabeledUndirectedGraph<L>, ScanCounter {
    using LabeledUndirectedGraph<L>::LabeledUndirectedGraph;
    CountU(const LabeledUndirectedGraph<L> &g) : LabeledUndirectedGraph<L>(g) {}
    const Successors &getOutNeighbours(VertexIndex v) const {
        tick();
        return LabeledUndirectedGraph<L>::getOutNeighbours(v);
    }
};
template <class W> struct CountW : W, ScanCounter {
    CountW(const W &g) : W(g) {}
    const Successors &getOutNeighbours(VertexIndex v) const {
        tick();
        return W::getOutNeighbours(v);
    }
};

template <class C> json seqJson(const C &c) {
    json a = json::array();
    for (auto v : c)
        a.push_back(sent(v));
    return a;
}

} // namespace verif
#endif
