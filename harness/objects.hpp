// Type-erased wrappers around the eight BaseGraph classes.  Each wrapper
//  * applies a specification call record (GraphOps!Step's argument) to the
//    real object and classifies the outcome,
//  * projects the real object - through the PUBLIC API only - onto exactly
//    the record GraphOps!Obs computes from the specification's value,
//  * encodes the representation-level state GraphOps!Enc (recovered from the
//    observers: neighbour multisets, label presence and value, counters).
#ifndef VERIF_OBJECTS_HPP
#define VERIF_OBJECTS_HPP

#include "common.hpp"

#include "BaseGraph/directed_graph.hpp"
#include "BaseGraph/directed_multigraph.hpp"
#include "BaseGraph/directed_weighted_graph.hpp"
#include "BaseGraph/undirected_graph.hpp"
#include "BaseGraph/undirected_multigraph.hpp"
#include "BaseGraph/undirected_weighted_graph.hpp"

#include <cmath>
#include <memory>
#include <unordered_map>
#include <sstream>
#include <stdexcept>
#include <type_traits>

namespace verif {

using namespace BaseGraph;

struct IObj {
    virtual ~IObj() {}
    virtual std::unique_ptr<IObj> clone() const = 0;
    virtual std::unique_ptr<IObj> moveClone() = 0;       // move construction (the source gets its value back)
    virtual void moveAssignFrom(IObj &other) = 0;        // move assignment   (the source gets its value back)
    virtual void swapWith(IObj &other) = 0;              // std::swap
    virtual void selfAssign() = 0;                       // a = a
    // index embedding: the specification's vertices 0..k-1 are the real vertices e[0] < ... < e[k-1]
    // of a much larger graph (all other vertices stay isolated); calls and projection are translated
    virtual void setEmbedding(const std::vector<unsigned> &e) = 0;
    virtual std::string family() const = 0; // e.g. "LabeledDirectedGraph<int>"
    // returns "ok", "out_of_range", "invalid_argument" or "other:<what>"
    virtual std::string apply(const json &call) = 0;
    virtual json project() const = 0;
    virtual json enc() const = 0;
    // exact neighbour sequences + counters: "observably identical" (C07) is
    // compared on this, order included
    virtual json exact() const = 0;
    // the abstract graph as the public API shows it: vertices, edges, attributes of the edges
    // (what C06 says operator== must compare - and nothing else)
    virtual json abstractGraph() const = 0;
    virtual bool equals(const IObj &other) const = 0; // operator==
    virtual bool differs(const IObj &other) const = 0; // operator!=
    virtual void assignFrom(const IObj &other) = 0;    // operator=
    virtual std::string text() const = 0;              // operator<<
};

template <class F> std::string classify(F &&f) {
    try {
        f();
        return "ok";
    } catch (const std::out_of_range &) {
        return "out_of_range";
    } catch (const std::invalid_argument &) {
        return "invalid_argument";
    } catch (const std::exception &e) {
        return std::string("other:") + e.what();
    } catch (...) {
        return "other:non-std";
    }
}

// ---------------------------------------------------------------------------
enum class KindTag { Labeled, Multi, Weighted };

template <class G> struct GInfo;
template <class L> struct GInfo<LabeledDirectedGraph<L>> {
    static constexpr bool directed = true;
    static constexpr KindTag kind = KindTag::Labeled;
    using Label = L;
    static std::string name() { return std::string("LabeledDirectedGraph<") + Codec<L>::name + ">"; }
};
template <class L> struct GInfo<LabeledUndirectedGraph<L>> {
    static constexpr bool directed = false;
    static constexpr KindTag kind = KindTag::Labeled;
    using Label = L;
    static std::string name() { return std::string("LabeledUndirectedGraph<") + Codec<L>::name + ">"; }
};
template <> struct GInfo<DirectedMultigraph> {
    static constexpr bool directed = true;
    static constexpr KindTag kind = KindTag::Multi;
    using Label = EdgeMultiplicity;
    static std::string name() { return "DirectedMultigraph"; }
};
template <> struct GInfo<UndirectedMultigraph> {
    static constexpr bool directed = false;
    static constexpr KindTag kind = KindTag::Multi;
    using Label = EdgeMultiplicity;
    static std::string name() { return "UndirectedMultigraph"; }
};
template <> struct GInfo<DirectedWeightedGraph> {
    static constexpr bool directed = true;
    static constexpr KindTag kind = KindTag::Weighted;
    using Label = EdgeWeight;
    static std::string name() { return "DirectedWeightedGraph"; }
};
template <> struct GInfo<UndirectedWeightedGraph> {
    static constexpr bool directed = false;
    static constexpr KindTag kind = KindTag::Weighted;
    using Label = EdgeWeight;
    static std::string name() { return "UndirectedWeightedGraph"; }
};

// label <-> abstract integer for the three kinds
// Weighted classes, variant 1: weights that are NOT exactly representable and differ by
// several orders of magnitude, so that running sums depend on the order of operations
// (the "within accumulated rounding error" regime of C05; operator== must not depend on it).
inline double inexactWeight(int a) {
    switch (a) {
    case -1: return -0.1;
    case 0: return 0.0;
    case 1: return 0.3;
    case 2: return 7000.3;
    case 3: return 0.7;
    case 4: return 0.1 + 0.2; // one ulp above inexactWeight(1)
    case 5: return 1e308;     // swamps every other weight in a running sum; two of them exceed DBL_MAX (not long double)
    default: return 1.1 * a;
    }
}
template <class G> struct Lab {
    using I = GInfo<G>;
    using L = typename I::Label;
    static L enc(int a, int variant = 0) {
        if constexpr (I::kind == KindTag::Labeled)
            return Codec<L>::enc(a);
        else if constexpr (I::kind == KindTag::Weighted)
            return variant ? inexactWeight(a) : (L)a;
        else
            return variant ? (L)((unsigned long long)a << 30) : (L)a; // multigraphs, variant 1: units of 2^30
    }
    static int dec(const L &v, int variant = 0) {
        if constexpr (I::kind == KindTag::Labeled)
            return Codec<L>::dec(v);
        else if constexpr (I::kind == KindTag::Multi) {
            if (variant)
                return (v & ((1u << 30) - 1)) ? UNKNOWN_L : (int)(v >> 30);
            return v > 1000000u ? UNKNOWN_L : (int)v;
        }
        else {
            if (variant) {
                for (int a = -1; a <= 5; ++a)
                    if (inexactWeight(a) == v)
                        return a;
                return UNKNOWN_L;
            }
            double r = std::nearbyint(v);
            return (r == v && std::fabs(v) < 1e9) ? (int)r : UNKNOWN_L;
        }
    }
};

// the labelled base-class view of any of the eight classes
template <class G> const auto &baseView(const G &g) {
    if constexpr (GInfo<G>::kind == KindTag::Labeled)
        return g;
    else
        return g.asLabeledGraph();
}

template <class G> class Obj : public IObj {
    using I = GInfo<G>;
    using L = typename I::Label;
    static constexpr bool nolabel = std::is_same<L, NoLabel>::value;

  public:
    G g;
    int variant = 0; // weighted classes: 1 = inexact weights
    bool sawHuge = false; // a weight of 1e308 went through this object's running total
    // a view obtained from edges() when the object was created (before any later resize /
    // insertion): edges() is a live view of the graph, traversing it later enumerates the
    // graph as it is then (C08)
    using EdgesView = decltype(std::declval<const G &>().edges());
    std::unique_ptr<EdgesView> keptView;
    Obj() : g(0) { keptView.reset(new EdgesView(g.edges())); }
    explicit Obj(const G &o, int v = 0) : g(o), variant(v) { keptView.reset(new EdgesView(g.edges())); }
    Obj(G &&o, int v, int /*moved*/) : g(std::move(o)), variant(v) { keptView.reset(new EdgesView(g.edges())); }
    Obj(const Obj &) = delete;
    Obj &operator=(const Obj &) = delete;

    std::unique_ptr<IObj> clone() const override {
        auto *c = new Obj<G>(g, variant); // copy constructor of the class
        c->sawHuge = sawHuge;
        return std::unique_ptr<IObj>(c);
    }
    std::vector<VertexIndex> embed;
    void setEmbedding(const std::vector<unsigned> &e) override { embed.assign(e.begin(), e.end()); }
    VertexIndex realV(VertexIndex v) const { return (!embed.empty() && v < embed.size()) ? embed[v] : v; }
    std::unique_ptr<IObj> moveClone() override {
        auto *c = new Obj<G>(std::move(g), variant, 0);
        c->sawHuge = sawHuge;
        g = c->g;
        return std::unique_ptr<IObj>(c);
    }
    void moveAssignFrom(IObj &o) override {
        auto &src = static_cast<Obj<G> &>(o);
        g = std::move(src.g);
        sawHuge = src.sawHuge;
        src.g = g;
    }
    void swapWith(IObj &o) override {
        auto &x = static_cast<Obj<G> &>(o);
        std::swap(g, x.g);
        std::swap(sawHuge, x.sawHuge);
    }
    void selfAssign() override {
        G &alias = g;
        g = alias;
    }
    std::string family() const override { return I::name() + (variant ? (I::kind == KindTag::Multi ? "[multiplicities in units of 2^30]" : "[inexact weights]") : ""); }
    bool equals(const IObj &o) const override { return g == static_cast<const Obj<G> &>(o).g; }
    bool differs(const IObj &o) const override { return g != static_cast<const Obj<G> &>(o).g; }
    void assignFrom(const IObj &o) override {
        g = static_cast<const Obj<G> &>(o).g;
        sawHuge = static_cast<const Obj<G> &>(o).sawHuge;
    }
    std::string text() const override {
        std::ostringstream os;
        os << g;
        return os.str();
    }

    // The value moves to ANOTHER object of the class, which then takes this one's place (the
    // member is destroyed and copy-constructed in place from the receiver, so whatever the
    // receiver got wrong stays visible); "selfassign" assigns the object to itself.
    void relocate(const std::string &how) {
        if (how == "selfassign") {
            G &alias = g;
            g = alias;
            return;
        }
        auto replaceBy = [&](const G &receiver) {
            g.~G();
            new (&g) G(receiver);
        };
        if (how == "copyassign") {
            G fresh(0);
            fresh = g;
            replaceBy(fresh);
        } else if (how == "moveassign") {
            G fresh(0);
            fresh = std::move(g);
            replaceBy(fresh);
        } else if (how == "moveconstruct") {
            G fresh(std::move(g));
            replaceBy(fresh);
        } else if (how == "swap") {
            G fresh(0);
            std::swap(fresh, g);
            replaceBy(fresh);
        } else
            throw std::logic_error("unknown relocation " + how);
    }

    // weights of the inexact regime; every other zero weight given to this object is NEGATIVE zero
    // (equal to zero: equality, totals and matrices may not tell the two apart)
    double encW(int a) {
        static unsigned zeroFlip = 0;         // shared by all objects: two objects get different zeros
        double w = (double)Lab<G>::enc(a, variant);
        if (variant && w == 0 && (zeroFlip++ & 1))
            w = -0.0;
        return w;
    }
    std::string apply(const json &c) override {
        std::string out = applyInner(c);
        // clearEdges() is a fresh start for the running total, whatever rounding residue it carried
        if (out == "ok" && c.at("op") == "clearEdges")
            sawHuge = false;
        return out;
    }
    std::string applyInner(const json &c) {
        const std::string op = c.at("op");
        if (variant && c.contains("w") && c.at("w").get<int>() == 5)
            sawHuge = true;
        auto I_ = [&] { return realV(vtx(c.at("i"))); };
        auto J_ = [&] { return realV(vtx(c.at("j"))); };
        auto V_ = [&] { return realV(vtx(c.at("v"))); };
        auto F_ = [&] { return c.at("f").get<bool>(); };
        return classify([&] {
            if (op == "resize") {
                size_t k = c.at("k").get<size_t>();
                g.resize(!embed.empty() && k == embed.size() ? (size_t)embed.back() + 1 : k);
            } else if (op == "relocate")
                relocate(c.at("how").get<std::string>());
            else if (op == "clearEdges")
                g.clearEdges();
            else if (op == "removeDuplicateEdges")
                g.removeDuplicateEdges();
            else if (op == "removeSelfLoops")
                g.removeSelfLoops();
            else if (op == "removeVertexFromEdgeList")
                g.removeVertexFromEdgeList(V_());
            else if (op == "removeEdge" && !(I::kind == KindTag::Multi && variant))
                g.removeEdge(I_(), J_());
            else if (op == "hasEdge")
                (void)g.hasEdge(I_(), J_());
            else if (op == "getOutNeighbours")
                (void)g.getOutNeighbours(V_());
            else if (op == "getEdgeLabel")
                (void)baseView(g).getEdgeLabel(I_(), J_());
            else if (op == "getEdgeLabelNoThrow")
                (void)baseView(g).getEdgeLabel(I_(), J_(), false);
            else if (op == "assertVertexInRange")
                baseView(g).assertVertexInRange(V_());
            else if (op == "getOutDegree") {
                if constexpr (I::directed)
                    (void)g.getOutDegree(V_());
                else
                    throw std::logic_error("no getOutDegree");
            } else if (op == "getInDegree") {
                if constexpr (I::directed)
                    (void)g.getInDegree(V_());
                else
                    throw std::logic_error("no getInDegree");
            } else if (op == "getDegree") {
                if constexpr (!I::directed) {
                    // both forms must accept or reject the vertex (the first rejection is reported)
                    std::exception_ptr e1, e2;
                    try {
                        (void)g.getDegree(V_(), false);
                    } catch (...) {
                        e1 = std::current_exception();
                    }
                    try {
                        (void)g.getDegree(V_());
                    } catch (...) {
                        e2 = std::current_exception();
                    }
                    if (e1 && e2)
                        std::rethrow_exception(e1);
                    if (e1 || e2)
                        throw std::logic_error("getDegree(v, false) and getDegree(v, true) disagree on rejecting the vertex");
                } else
                    throw std::logic_error("no getDegree");
            } else if constexpr (I::kind == KindTag::Labeled) {
                if (op == "addEdge")
                    g.addEdge(I_(), J_(), Lab<G>::enc(c.at("l")), F_());
                else if (op == "addEdgeD")
                    g.addEdge(I_(), J_(), F_());
                else if (op == "setEdgeLabel")
                    g.setEdgeLabel(I_(), J_(), Lab<G>::enc(c.at("l")), F_());
                else if (op == "addReciprocalEdge") {
                    if constexpr (I::directed)
                        g.addReciprocalEdge(I_(), J_(), Lab<G>::enc(c.at("l")), F_());
                    else
                        throw std::logic_error("no addReciprocalEdge");
                } else
                    throw std::logic_error("unknown op " + op);
            } else if constexpr (I::kind == KindTag::Multi) {
                // variant 1: every multiplicity is a multiple of 2^30, so sums and differences
                // cross 2^31 and 2^32; addEdge/removeEdge (implicit multiplicity 1) become one unit
                auto K_ = [&] { return Lab<G>::enc(c.at("k").get<int>(), variant); };
                if (op == "addEdge" && !variant)
                    g.addEdge(I_(), J_(), F_());
                else if (op == "addEdge")
                    g.addMultiedge(I_(), J_(), Lab<G>::enc(1, variant), F_());
                else if (op == "removeEdge" && variant)
                    g.removeMultiedge(I_(), J_(), Lab<G>::enc(1, variant));
                else if (op == "addMultiedge")
                    g.addMultiedge(I_(), J_(), K_(), F_());
                else if (op == "removeMultiedge")
                    g.removeMultiedge(I_(), J_(), K_());
                else if (op == "setEdgeMultiplicity")
                    g.setEdgeMultiplicity(I_(), J_(), K_());
                else if (op == "getEdgeMultiplicity")
                    (void)g.getEdgeMultiplicity(I_(), J_());
                else if (op == "addReciprocalEdge") {
                    if constexpr (I::directed) {
                        if (variant)
                            g.addReciprocalMultiedge(I_(), J_(), Lab<G>::enc(1, variant), F_());
                        else
                            g.addReciprocalEdge(I_(), J_(), F_());
                    } else
                        throw std::logic_error("no addReciprocalEdge");
                } else if (op == "addReciprocalMultiedge") {
                    if constexpr (I::directed)
                        g.addReciprocalMultiedge(I_(), J_(), K_(), F_());
                    else
                        throw std::logic_error("no addReciprocalMultiedge");
                } else
                    throw std::logic_error("unknown op " + op);
            } else {
                if (op == "addEdge")
                    g.addEdge(I_(), J_(), encW(c.at("w").get<int>()), F_());
                else if (op == "setEdgeWeight")
                    g.setEdgeWeight(I_(), J_(), encW(c.at("w").get<int>()));
                else if (op == "getEdgeWeight")
                    (void)g.getEdgeWeight(I_(), J_());
                else if (op == "addReciprocalEdge") {
                    if constexpr (I::directed)
                        g.addReciprocalEdge(I_(), J_(), F_());
                    else
                        throw std::logic_error("no addReciprocalEdge");
                } else
                    throw std::logic_error("unknown op " + op);
            }
        });
    }

    // "[topic] message; [topic] message; ..." -> {topic: messages}
    static json groupByTopic(const std::string &bad) {
        json o = json::object();
        size_t st = 0;
        while (st < bad.size()) {
            size_t e = bad.find("; ", st);
            if (e == std::string::npos)
                e = bad.size();
            std::string m = bad.substr(st, e - st);
            std::string topic = "other";
            if (!m.empty() && m[0] == '[') {
                size_t c = m.find(']');
                if (c != std::string::npos) {
                    topic = m.substr(1, c - 1);
                    m = m.substr(std::min(m.size(), c + 2));
                }
            }
            if (!m.empty())
                o[topic] = o.value(topic, std::string()) + m + "; ";
            st = e + 2;
        }
        return o;
    }

    // multigraph variant 1: counts are reported in units of 2^30
    unsigned long long unit(unsigned long long v, std::string &bad) const {
        if (!(I::kind == KindTag::Multi && variant))
            return v;
        if (v & ((1ull << 30) - 1))
            bad += "[mult] a multiplicity-weighted count is not a multiple of the unit; ";
        return v >> 30;
    }
    json unitVec(const std::vector<size_t> &v, std::string &bad) const {
        json a = json::array();
        for (auto x : v)
            a.push_back(unit(x, bad));
        return a;
    }
    json unitMat(const std::vector<std::vector<size_t>> &m, std::string &bad) const {
        json a = json::array();
        for (auto &row : m)
            a.push_back(unitVec(row, bad));
        return a;
    }

    // neighbour multiset of every vertex; entries >= n are reported
    json nbrCounts(std::string &bad) const {
        size_t n = g.getSize();
        json m = zeroMat(n);
        for (VertexIndex i = 0; i < n; ++i)
            for (VertexIndex j : g.getOutNeighbours(i)) {
                if (j >= n) {
                    bad += "[range] neighbour " + std::to_string(j) + " of " + std::to_string(i) + " out of range; ";
                    continue;
                }
                m[i][j] = m[i][j].get<int>() + 1;
            }
        return m;
    }

    // label stored for (i,j): NONE_L when getEdgeLabel throws invalid_argument
    int labelThrowing(VertexIndex i, VertexIndex j, std::string &bad) const {
        if (nolabel) {
            (void)baseView(g).getEdgeLabel(i, j); // must not throw for an in-range pair
            return NONE_L;
        }
        try {
            return Lab<G>::dec(baseView(g).getEdgeLabel(i, j), variant);
        } catch (const std::invalid_argument &) {
            return NONE_L;
        } catch (const std::exception &e) {
            bad += std::string("[label] getEdgeLabel threw ") + e.what() + "; ";
            return UNKNOWN_L;
        }
    }

    // an observer that throws on a valid graph is reported, not propagated
    json project() const override {
        try {
            return embed.empty() ? projectImpl() : projectEmbedded();
        } catch (const std::exception &e) {
            return json{{"inconsistent", json{{"threw", std::string("an observer threw: ") + e.what()}}}};
        }
    }
    json enc() const override {
        try {
            if (!embed.empty()) {
                json o = projectEmbedded();
                json e = {{"n", o["n"]}, {"adj", o["nbr"]}, {"lab", o["lab"]}, {"en", o["en"]}, {"tot", o["tot"]}};
                if (!I::directed)
                    for (size_t a = 0; a < e["lab"].size(); ++a)
                        for (size_t b = 0; b < a; ++b)
                            e["lab"][a][b] = NONE_L;
                if (o.contains("inconsistent"))
                    e["inconsistent"] = o["inconsistent"];
                return e;
            }
            return encImpl();
        } catch (const std::exception &e) {
            return json{{"inconsistent", json{{"threw", std::string("an observer threw: ") + e.what()}}}};
        }
    }

    json projectImpl() const {
        std::string bad;
        json o = json::object();
        const size_t n = g.getSize();
        o["n"] = n;
        o["en"] = g.getEdgeNumber();
        o["nbr"] = nbrCounts(bad);

        // vertex iteration: 0..n-1 in order, pre and post increment agree
        {
            VertexIndex expect = 0;
            for (VertexIndex v : g) {
                if (v != expect)
                    bad += "[iter] vertex iteration out of order; ";
                ++expect;
            }
            if (expect != n)
                bad += "[iter] vertex iteration count; ";
            auto it = g.begin();
            for (VertexIndex k = 0; k < n; ++k) {
                auto old = it++;
                if (*old != k)
                    bad += "[iter] vertex post-increment; ";
            }
            if (it != g.end())
                bad += "[iter] vertex iteration end; ";
            // == and != in either operand order
            size_t cnt = 0;
            for (auto jt = g.begin(); g.end() != jt; ++jt)
                ++cnt;
            if (cnt != n)
                bad += "[iter] vertex loop written `end() != it` visits another number of vertices; ";
            if ((g.begin() != g.end()) != (g.end() != g.begin()) || (g.begin() == g.end()) != (g.end() == g.begin()) ||
                (g.begin() == g.end()) == (g.begin() != g.end()) || (g.begin() == g.end()) != (n == 0))
                bad += "[iter] vertex iterator == / != are not symmetric negations; ";
        }

        json has = zeroMat(n), lab = zeroMat(n), labd = zeroMat(n);
        json hasl = json::array({zeroMat(n), zeroMat(n), zeroMat(n)});
        for (VertexIndex i = 0; i < n; ++i)
            for (VertexIndex j = 0; j < n; ++j) {
                has[i][j] = g.hasEdge(i, j) ? 1 : 0;
                lab[i][j] = labelThrowing(i, j, bad);
                labd[i][j] = nolabel ? 0 : Lab<G>::dec(baseView(g).getEdgeLabel(i, j, false), variant);
                for (int l = 0; l < 3; ++l)
                    hasl[l][i][j] = baseView(g).hasEdge(i, j, Lab<G>::enc(l, variant)) ? 1 : 0;
            }
        // C03 on the object's own terms: an entry in the label map exactly for the pairs that
        // hasEdge reports (orphans only arise from setEdgeLabel(force=true), which the scenarios
        // that compare this topic do not use)
        if (!nolabel)
            for (VertexIndex i = 0; i < n; ++i)
                for (VertexIndex j = 0; j < n; ++j)
                    if ((lab[i][j].get<int>() != NONE_L) != (has[i][j].get<int>() == 1)) {
                        bad += "[label] getEdgeLabel(" + std::to_string(i) + "," + std::to_string(j) + ") " +
                               (has[i][j].get<int>() ? "throws although the pair is an edge" : "returns a label although the pair is not an edge") + "; ";
                        i = j = (VertexIndex)n; // one message is enough
                    }
        o["has"] = has;
        o["lab"] = lab;
        o["labd"] = labd;
        o["hasl"] = hasl;

        // edges(): range-for, explicit pre-increment, post-increment, and a second
        // traversal must yield the same sequence (C08)
        {
            json ec = zeroMat(n);
            std::vector<Edge> s1, s2, s3, s4;
            for (auto e : g.edges())
                s1.push_back(e);
            {
                auto ed = g.edges();
                for (auto it = ed.begin(); it != ed.end(); ++it)
                    s2.push_back(*it);
                for (auto it = ed.begin(); it != ed.end();) {
                    auto old = it++;
                    s3.push_back(*old);
                }
            }
            for (auto e : g.edges())
                s4.push_back(e);
            if (s1 != s2 || s1 != s3 || s1 != s4)
                bad += "[iter] edge traversals disagree; ";
            if (keptView) {
                std::vector<Edge> s5;
                for (auto e : *keptView)
                    s5.push_back(e);
                if (s5 != s1)
                    bad += "[iter] a view obtained from edges() before the last mutations does not enumerate the current graph; ";
            }
            for (auto &e : s1) {
                if (e.first >= n || e.second >= n) {
                    bad += "[range] edge out of range; ";
                    continue;
                }
                ec[e.first][e.second] = ec[e.first][e.second].get<int>() + 1;
            }
            o["edges"] = ec;
            // edges() must yield exactly the neighbour-list entries (the half with
            // vertex <= neighbour for the undirected classes): an oracle that does not depend
            // on which graph the object is supposed to hold
            {
                const json &nb = o["nbr"];
                bool same = true;
                for (VertexIndex i = 0; i < n && same; ++i)
                    for (VertexIndex j = 0; j < n && same; ++j) {
                        int want = (I::directed || i <= j) ? nb[i][j].get<int>() : 0;
                        if (ec[i][j].get<int>() != want)
                            same = false;
                    }
                if (!same)
                    bad += "[iter] edges() does not enumerate the neighbour lists exactly once; ";
            }
            bool be = g.edges().begin() == g.edges().end();
            bool bne = g.edges().begin() != g.edges().end();
            if (be == bne)
                bad += "[iter] edge iterator == and != agree; ";
            {
                auto ed = g.edges();
                size_t cnt = 0;
                for (auto it = ed.begin(); ed.end() != it; ++it)
                    ++cnt;
                if (cnt != s1.size() || (ed.end() == ed.begin()) != be || (ed.end() != ed.begin()) != bne)
                    bad += "[iter] edge iterator comparisons depend on the operand order; ";
            }
            o["noedge"] = be ? 1 : 0;
        }

        if constexpr (I::directed) {
            json od = json::array(), id = json::array();
            auto ods = g.getOutDegrees();
            auto ids = g.getInDegrees();
            if (ods.size() != n || ids.size() != n)
                bad += "[degree] degree vector size; ";
            for (VertexIndex v = 0; v < n; ++v) {
                od.push_back(unit(g.getOutDegree(v), bad));
                id.push_back(unit(g.getInDegree(v), bad));
                if (v < ods.size() && ods[v] != g.getOutDegree(v))
                    bad += "[degree] getOutDegrees != getOutDegree; ";
                if (v < ids.size() && ids[v] != g.getInDegree(v))
                    bad += "[degree] getInDegrees != getInDegree; ";
            }
            o["outdeg"] = od;
            o["indeg"] = id;
            o["mat"] = unitMat(g.getAdjacencyMatrix(), bad);
        } else {
            json d2 = json::array(), d1 = json::array();
            auto v2 = g.getDegrees(), v1 = g.getDegrees(false);
            if (v2.size() != n || v1.size() != n)
                bad += "[degree] degree vector size; ";
            for (VertexIndex v = 0; v < n; ++v) {
                d2.push_back(unit(g.getDegree(v), bad));
                d1.push_back(unit(g.getDegree(v, false), bad));
                if (v < v2.size() && (v2[v] != g.getDegree(v, true) || v1[v] != g.getDegree(v, false)))
                    bad += "[degree] getDegrees != getDegree; ";
            }
            o["deg2"] = d2;
            o["deg1"] = d1;
            o["mat"] = unitMat(g.getAdjacencyMatrix(), bad);
            o["mat1"] = unitMat(g.getAdjacencyMatrix(false), bad);
            // getNeighbours is the same list as getOutNeighbours
            if constexpr (I::kind == KindTag::Labeled)
                for (VertexIndex v = 0; v < n; ++v)
                    if (g.getNeighbours(v) != g.getOutNeighbours(v))
                        bad += "[nbr] getNeighbours != getOutNeighbours; ";
        }
        if (n == 0 && !o["mat"].is_array())
            o["mat"] = json::array();

        if constexpr (I::kind == KindTag::Multi) {
            o["tot"] = unit(g.getTotalEdgeNumber(), bad);
            json mu = zeroMat(n);
            for (VertexIndex i = 0; i < n; ++i)
                for (VertexIndex j = 0; j < n; ++j)
                    mu[i][j] = Lab<G>::dec(g.getEdgeMultiplicity(i, j), variant);
            o["mult"] = mu;
        } else if constexpr (I::kind == KindTag::Weighted) {
            long double t = g.getTotalWeight();
            if (variant) {
                // inexact regime: the total must be within accumulated rounding error of the
                // sum of the weights of the edges present; reported in abstract units
                long double sum = 0;
                long long abstractSum = 0;
                for (auto e : g.edges()) {
                    sum += (long double)g.getEdgeWeight(e.first, e.second);
                    abstractSum += Lab<G>::dec(g.getEdgeWeight(e.first, e.second), variant);
                }
                // accumulated rounding error scales with the largest weight the total ever held
                long double tol = 1e-6L;
                for (auto e : g.edges())
                    tol = std::max(tol, 1e-9L * std::fabs((long double)g.getEdgeWeight(e.first, e.second)));
                if (sawHuge)
                    tol = std::max(tol, 1e295L);
                // (UndirectedWeightedGraph::getTotalWeight returns a double: a sum beyond DBL_MAX reads
                // as infinity there, which is that sum rounded to the return type)
                const bool beyondDouble = !std::isfinite((double)sum);
                if (beyondDouble ? ((double)t != (double)sum && std::fabs((double)(t - sum)) > (double)tol)
                                 : (!(std::fabs((double)(t - sum)) <= (double)tol))) {
                    bad += "[total] total weight differs from the sum of the edge weights beyond rounding error; ";
                    o["tot"] = std::isfinite((double)t) ? json((double)t) : json(std::signbit((double)t) ? -2147483647 : 2147483647);
                } else
                    o["tot"] = abstractSum;
            } else {
                long double r = std::nearbyint(t);
                if (r != t) {
                    bad += "[total] total weight not integral; ";
                    o["tot"] = (double)t;
                } else
                    o["tot"] = (long long)r;
            }
            json wm = zeroMat(n);
            auto w = g.getWeightMatrix();
            if (w.size() != n)
                bad += "[weight] weight matrix size; ";
            for (VertexIndex i = 0; i < n && i < w.size(); ++i)
                for (VertexIndex j = 0; j < n && j < w[i].size(); ++j)
                    wm[i][j] = (w[i][j] == 0 && !g.hasEdge(i, j)) ? 0 : Lab<G>::dec(w[i][j], variant);
            o["wmat"] = wm;
            // the class's own getEdgeWeight agrees with the labelled view
            for (VertexIndex i = 0; i < n; ++i)
                for (VertexIndex j = 0; j < n; ++j) {
                    int a = Lab<G>::dec(g.getEdgeWeight(i, j, false), variant);
                    if (a != labd[i][j].get<int>())
                        bad += "[weight] getEdgeWeight(.,.,false) != label; ";
                    bool thr = false;
                    try {
                        (void)g.getEdgeWeight(i, j);
                    } catch (const std::invalid_argument &) {
                        thr = true;
                    }
                    if (thr != (lab[i][j].get<int>() == NONE_L))
                        bad += "[weight] getEdgeWeight throw != label presence; ";
                }
        } else
            o["tot"] = 0;

        if (!bad.empty())
            o["inconsistent"] = groupByTopic(bad);
        return o;
    }

    // The projection restricted to the embedded vertices (everything else must be isolated).  The
    // observers that return n x n matrices of the whole graph are left out.
    json projectEmbedded() const {
        std::string bad;
        json o = json::object();
        const size_t k = g.getSize() == 0 ? 0 : embed.size();
        if (g.getSize() != 0 && g.getSize() != (size_t)embed.back() + 1)
            bad += "[range] size of the embedded graph; ";
        std::unordered_map<VertexIndex, size_t> inv;
        for (size_t a = 0; a < k; ++a)
            inv[embed[a]] = a;
        o["n"] = k;
        o["en"] = g.getEdgeNumber();
        json nbr = zeroMat(k), has = zeroMat(k), lab = zeroMat(k), labd = zeroMat(k), ec = zeroMat(k);
        json hasl = json::array({zeroMat(k), zeroMat(k), zeroMat(k)});
        for (size_t a = 0; a < k; ++a) {
            for (VertexIndex w : g.getOutNeighbours(embed[a])) {
                auto it = inv.find(w);
                if (it == inv.end())
                    bad += "[range] neighbour " + std::to_string(w) + " of " + std::to_string(embed[a]) + " is not one of the vertices used; ";
                else {
                    const size_t b2 = it->second;
                    nbr[a][b2] = nbr[a][b2].template get<int>() + 1;
                }
            }
            for (size_t b = 0; b < k; ++b) {
                const VertexIndex i = embed[a], j = embed[b];
                has[a][b] = g.hasEdge(i, j) ? 1 : 0;
                lab[a][b] = labelThrowing(i, j, bad);
                labd[a][b] = nolabel ? 0 : Lab<G>::dec(baseView(g).getEdgeLabel(i, j, false), variant);
                for (int l = 0; l < 3; ++l)
                    hasl[l][a][b] = baseView(g).hasEdge(i, j, Lab<G>::enc(l, variant)) ? 1 : 0;
            }
        }
        o["nbr"] = nbr;
        o["has"] = has;
        o["lab"] = lab;
        o["labd"] = labd;
        o["hasl"] = hasl;
        size_t yielded = 0, post = 0;
        for (auto e : g.edges()) {
            ++yielded;
            auto x = inv.find(e.first), y = inv.find(e.second);
            if (x == inv.end() || y == inv.end())
                bad += "[range] edges() yields a vertex that is not one of the vertices used; ";
            else {
                const size_t xa = x->second, yb = y->second;
                ec[xa][yb] = ec[xa][yb].template get<int>() + 1;
            }
        }
        {
            auto ed = g.edges();
            for (auto it = ed.begin(); it != ed.end(); it++)
                ++post;
        }
        if (post != yielded)
            bad += "[iter] edge traversals disagree; ";
        for (size_t a = 0; a < k; ++a)
            for (size_t b = 0; b < k; ++b)
                if (ec[a][b].get<int>() != ((I::directed || embed[a] <= embed[b]) ? nbr[a][b].get<int>() : 0)) {
                    bad += "[iter] edges() does not enumerate the neighbour lists exactly once; ";
                    a = b = k;
                }
        o["edges"] = ec;
        o["noedge"] = (g.edges().begin() == g.edges().end()) ? 1 : 0;
        // every vertex that is not used stays isolated
        {
            size_t others = 0;
            for (VertexIndex v = 0; v < g.getSize(); ++v)
                if (!inv.count(v))
                    others += g.getOutNeighbours(v).size();
            if (others)
                bad += "[range] a vertex that no call named has neighbours; ";
        }
        if constexpr (I::directed) {
            json od = json::array(), id = json::array();
            auto ods = g.getOutDegrees();
            auto ids = g.getInDegrees();
            if (ods.size() != g.getSize() || ids.size() != g.getSize())
                bad += "[degree] degree vector size; ";
            for (size_t a = 0; a < k; ++a) {
                const VertexIndex v = embed[a];
                od.push_back(unit(g.getOutDegree(v), bad));
                id.push_back(unit(g.getInDegree(v), bad));
                if (v < ods.size() && ods[v] != g.getOutDegree(v))
                    bad += "[degree] getOutDegrees != getOutDegree; ";
                if (v < ids.size() && ids[v] != g.getInDegree(v))
                    bad += "[degree] getInDegrees != getInDegree; ";
            }
            o["outdeg"] = od;
            o["indeg"] = id;
        } else {
            json d2 = json::array(), d1 = json::array();
            auto v2 = g.getDegrees(), v1 = g.getDegrees(false);
            if (v2.size() != g.getSize() || v1.size() != g.getSize())
                bad += "[degree] degree vector size; ";
            for (size_t a = 0; a < k; ++a) {
                const VertexIndex v = embed[a];
                d2.push_back(unit(g.getDegree(v), bad));
                d1.push_back(unit(g.getDegree(v, false), bad));
                if (v < v2.size() && (v2[v] != g.getDegree(v, true) || v1[v] != g.getDegree(v, false)))
                    bad += "[degree] getDegrees != getDegree; ";
            }
            o["deg2"] = d2;
            o["deg1"] = d1;
        }
        if constexpr (I::kind == KindTag::Multi) {
            o["tot"] = unit(g.getTotalEdgeNumber(), bad);
            json mu = zeroMat(k);
            for (size_t a = 0; a < k; ++a)
                for (size_t b = 0; b < k; ++b)
                    mu[a][b] = Lab<G>::dec(g.getEdgeMultiplicity(embed[a], embed[b]), variant);
            o["mult"] = mu;
        } else if constexpr (I::kind == KindTag::Weighted) {
            long double t = g.getTotalWeight();
            long double r = std::nearbyint(t);
            if (variant || r != t) {
                if (!variant)
                    bad += "[total] total weight not integral; ";
                o["tot"] = 0;
            } else
                o["tot"] = (long long)r;
        } else
            o["tot"] = 0;
        if (!bad.empty())
            o["inconsistent"] = groupByTopic(bad);
        return o;
    }

    json encImpl() const {
        std::string bad;
        json e = json::object();
        const size_t n = g.getSize();
        e["n"] = n;
        e["adj"] = nbrCounts(bad);
        json lab = zeroMat(n);
        for (VertexIndex i = 0; i < n; ++i)
            for (VertexIndex j = 0; j < n; ++j) {
                // the label map is keyed by the ordered pair in the undirected classes;
                // the non-canonical cell of the specification's matrix is always empty
                if (!I::directed && i > j)
                    lab[i][j] = NONE_L;
                else
                    lab[i][j] = labelThrowing(i, j, bad);
            }
        e["lab"] = lab;
        e["en"] = g.getEdgeNumber();
        if constexpr (I::kind == KindTag::Multi)
            e["tot"] = unit(g.getTotalEdgeNumber(), bad);
        else if constexpr (I::kind == KindTag::Weighted) {
            if (variant) {
                long long abstractSum = 0;
                for (auto ed : g.edges())
                    abstractSum += Lab<G>::dec(g.getEdgeWeight(ed.first, ed.second), variant);
                e["tot"] = abstractSum; // closeness of the real total is judged in project()
            } else
                e["tot"] = (long long)std::nearbyint(g.getTotalWeight());
        } else
            e["tot"] = 0;
        if (!bad.empty())
            e["inconsistent"] = groupByTopic(bad);
        return e;
    }

    json abstractGraph() const override {
        const size_t n = g.getSize();
        json a = {{"n", n}, {"has", zeroMat(n)}, {"att", zeroMat(n)}};
        std::string bad;
        for (VertexIndex i = 0; i < n; ++i)
            for (VertexIndex j = 0; j < n; ++j)
                if (g.hasEdge(i, j)) {
                    a["has"][i][j] = 1;
                    a["att"][i][j] = nolabel ? 0 : labelThrowing(i, j, bad);
                }
        return a;
    }

    json exact() const override {
        json e = json::object();
        const size_t n = g.getSize();
        e["n"] = n;
        json seqs = json::array();
        for (VertexIndex i = 0; i < n; ++i)
            seqs.push_back(json(std::vector<VertexIndex>(g.getOutNeighbours(i).begin(), g.getOutNeighbours(i).end())));
        e["lists"] = seqs;
        e["en"] = g.getEdgeNumber();
        if constexpr (I::kind == KindTag::Multi)
            e["tot"] = g.getTotalEdgeNumber();
        else if constexpr (I::kind == KindTag::Weighted)
            e["tot"] = (double)g.getTotalWeight();
        return e;
    }
};

} // namespace verif

#endif
