// Conformance harness, graph-object part (C01-C08, C16, C17).
//
//   gh walk   <plan.json>   spec -> code: read the specification's labelled
//                           transition graph (one JSON line per transition,
//                           as printed by Machine!Emit) on stdin and execute
//                           every transition on real objects
//   gh record <plan.json>   code -> spec: run seeded random call histories on
//                           a real object and write one ndjson event per call
//                           (call, outcome, full projection) for TLC to validate
//   gh replay <file.json>   re-run one reported history and print what happens
#include "registry.hpp"

#include <csignal>
#include <cstdio>
#include <cstring>
#include <fcntl.h>
#include <fstream>
#include <iostream>
#include <map>
#include <random>
#include <tuple>
#include <unistd.h>
#include <unordered_map>

#if defined(__has_feature)
#if __has_feature(address_sanitizer) || __has_feature(thread_sanitizer)
#define VERIF_SANITIZER 1
#include <sanitizer/common_interface_defs.h>
#endif
#endif

using namespace verif;

// ---------------------------------------------------------------- crash note
static char g_current[1 << 16];
static int g_crashfd = -1;
static void dumpCurrent() {
    if (g_crashfd >= 0) {
        size_t n = strnlen(g_current, sizeof g_current);
        ssize_t r = write(g_crashfd, g_current, n);
        (void)r;
        fsync(g_crashfd);
    }
}
static void onSignal(int sig) {
    dumpCurrent();
    _exit(100 + sig);
}
static void onTerminate() {
    dumpCurrent();
    _exit(99);
}
static void installCrashNote(const std::string &path) {
    if (path.empty())
        return;
    g_crashfd = open(path.c_str(), O_WRONLY | O_CREAT | O_TRUNC, 0644);
    std::set_terminate(onTerminate);
#ifdef VERIF_SANITIZER
    __sanitizer_set_death_callback(dumpCurrent);
#endif
    // the handlers run on their own stack: a stack overflow still leaves its note
    static char altstack[1 << 16];
    stack_t ss{};
    ss.ss_sp = altstack;
    ss.ss_size = sizeof altstack;
    sigaltstack(&ss, nullptr);
    for (int s : {SIGSEGV, SIGBUS, SIGABRT, SIGFPE, SIGILL, SIGALRM}) {
        struct sigaction sa{};
        sa.sa_handler = onSignal;
        sa.sa_flags = SA_ONSTACK;
        sigaction(s, &sa, nullptr);
    }
}
// every execution is also given a deadline: a call that never returns (e.g. on a heap
// corrupted by an out-of-bounds write) ends the harness with the crash note
static void setCurrent(const std::string &s) {
    alarm(120);
    size_t n = std::min(s.size(), sizeof g_current - 1);
    memcpy(g_current, s.data(), n);
    g_current[n] = 0;
}

// ---------------------------------------------------------------- helpers
struct Hist {
    std::shared_ptr<Hist> parent;
    std::string call;
};
static json histToJson(const std::shared_ptr<Hist> &h) {
    std::vector<std::string> v;
    for (auto p = h; p; p = p->parent)
        v.push_back(p->call);
    json a = json::array();
    for (auto it = v.rbegin(); it != v.rend(); ++it)
        a.push_back(json::parse(*it));
    return a;
}

static void diffJson(const json &exp, const json &act, const std::string &path, json &out, int &budget) {
    if (budget <= 0)
        return;
    if (exp == act)
        return;
    if (exp.is_object() && act.is_object()) {
        for (auto it = exp.begin(); it != exp.end(); ++it) {
            if (!act.contains(it.key())) {
                out.push_back(path + "/" + it.key() + ": missing in actual");
                --budget;
            } else
                diffJson(it.value(), act[it.key()], path + "/" + it.key(), out, budget);
        }
        for (auto it = act.begin(); it != act.end(); ++it)
            if (!exp.contains(it.key())) {
                out.push_back(path + "/" + it.key() + ": unexpected " + it.value().dump());
                --budget;
            }
        return;
    }
    if (exp.is_array() && act.is_array() && exp.size() == act.size()) {
        for (size_t k = 0; k < exp.size(); ++k)
            diffJson(exp[k], act[k], path + "[" + std::to_string(k) + "]", out, budget);
        return;
    }
    out.push_back(path + ": expected " + exp.dump() + " actual " + act.dump());
    --budget;
}

// Property-specific comparison: a check compares only the observers its property speaks of
// (plan.obs_fields / plan.state_fields; absent = all) and only the internal-consistency
// topics that belong to it (plan.topics; absent = all).
struct Restrict {
    bool allObs = true, allState = true, allTopics = true;
    bool maskByHas = false; // C03: labels are judged only for pairs on whose edge-ness both sides agree
    std::vector<std::string> obs, state, topics;
    explicit Restrict(const json &plan) {
        if (plan.contains("obs_fields")) {
            allObs = false;
            obs = plan.at("obs_fields").get<std::vector<std::string>>();
        }
        if (plan.contains("state_fields")) {
            allState = false;
            state = plan.at("state_fields").get<std::vector<std::string>>();
        }
        if (plan.contains("topics")) {
            allTopics = false;
            topics = plan.at("topics").get<std::vector<std::string>>();
        }
        maskByHas = plan.value("mask_by_has", false);
    }
    // where expected and actual disagree on whether (i,j) is an edge - some other property's
    // business - the label observers of that pair are not compared
    void mask(const json &expFull, const json &actFull, json &expObs, json &actObs) const {
        if (!maskByHas || !expFull.contains("has") || !actFull.contains("has"))
            return;
        const json &eh = expFull["has"], &ah = actFull["has"];
        if (eh.size() != ah.size())
            return;
        if (expObs.contains("has") && actObs.contains("has"))
            actObs["has"] = expObs["has"]; // (which pairs are edges is not this check's subject)
        for (size_t i = 0; i < eh.size(); ++i)
            for (size_t j = 0; j < eh[i].size(); ++j)
                if (eh[i][j] != ah[i][j]) {
                    for (const char *f : {"lab", "labd"})
                        if (expObs.contains(f) && actObs.contains(f))
                            actObs[f][i][j] = expObs[f][i][j];
                    if (expObs.contains("hasl") && actObs.contains("hasl"))
                        for (size_t l = 0; l < expObs["hasl"].size(); ++l)
                            actObs["hasl"][l][i][j] = expObs["hasl"][l][i][j];
                }
    }
    json pick(const json &o, bool all, const std::vector<std::string> &fields) const {
        json r = json::object();
        if (all) {
            r = o;
            r.erase("inconsistent");
        } else
            for (auto &f : fields)
                if (o.contains(f))
                    r[f] = o[f];
        if (o.contains("inconsistent") && o["inconsistent"].is_object()) {
            json inc = json::object();
            for (auto it = o["inconsistent"].begin(); it != o["inconsistent"].end(); ++it)
                if (allTopics || it.key() == "threw" ||
                    std::find(topics.begin(), topics.end(), it.key()) != topics.end())
                    inc[it.key()] = it.value();
            if (!inc.empty())
                r["inconsistent"] = inc;
        }
        return r;
    }
    json ofObs(const json &o) const { return pick(o, allObs, obs); }
    json ofState(const json &o) const { return pick(o, allState, state); }
};

struct Rep {
    std::vector<std::unique_ptr<IObj>> objs; // one per family of the group
    std::shared_ptr<Hist> hist;
    std::string sig; // exact() of family 0: distinguishes concrete representatives
};

static bool parseLine(const std::string &line, json &out) {
    if (line.size() < 2)
        return false;
    try {
        if (line[0] == '"' && line[1] == '{') {
            std::string inner = json::parse(line).get<std::string>();
            out = json::parse(inner);
            return true;
        }
        if (line[0] == '{') {
            out = json::parse(line);
            return true;
        }
    } catch (const std::exception &) {
        return false;
    }
    return false;
}

// ---------------------------------------------------------------- walk
static int walk(const json &plan) {
    const std::string group = plan.at("group");
    const size_t maxReps = plan.value("reps", 2);
    const size_t maxFail = plan.value("max_fail", 5);
    const std::string replayDir = plan.value("replay_dir", std::string("."));
    const std::string tag = plan.value("tag", group);
    const bool checkEq = plan.value("check_eq", true);
    const bool checkValid = plan.value("check_valid", true); // false: only rejected calls are judged (C07)
    // C17: no comparison with the specification at all - every execution's outcome and complete
    // projection are folded into a digest, and the digests of different BUILDS are compared
    const bool compare = plan.value("compare", true);
    unsigned long long digest = 0;
    const Restrict rs(plan);
    installCrashNote(plan.value("crash_note", std::string()));

    auto &facs = registry()[group];
    if (facs.empty()) {
        std::cerr << "no families registered for group " << group << "\n";
        return 2;
    }
    std::unordered_map<std::string, std::vector<Rep>> states;
    {
        Rep r;
        for (auto &f : facs)
            r.objs.push_back(f());
        r.sig = r.objs[0]->exact().dump();
        std::string key = r.objs[0]->enc().dump();
        states[key].push_back(std::move(r));
    }
    size_t transitions = 0, executions = 0, failures = 0, rejected = 0, orphan = 0, repsStored = 1, divergedExecs = 0;
    std::map<std::string, size_t> opCount, outCount;
    json replays = json::array(), samples = json::array(), failNotes = json::array();
    std::vector<json> pending;

    auto fail = [&](const Rep &rep, size_t fam, const json &tr, const std::string &why, const json &actual) {
        ++failures;
        if (replays.size() >= maxFail)
            return;
        json r;
        r["kind"] = "walk";
        r["group"] = group;
        r["family_index"] = fam;
        r["family"] = rep.objs[fam]->family();
        r["history"] = histToJson(rep.hist);
        r["call"] = tr["c"];
        r["expected"] = {{"out", tr["out"]}, {"to", tr["to"]}, {"obs", tr["obs"]}};
        r["actual"] = actual;
        r["why"] = why;
        std::string path = replayDir + "/" + tag + "-" + std::to_string(replays.size()) + ".json";
        std::ofstream(path) << r.dump(1) << "\n";
        replays.push_back(path);
        failNotes.push_back(rep.objs[fam]->family() + ": " + tr["c"].dump() + ": " + why);
    };

    auto process = [&](const json &tr) -> bool {
        std::string fromKey = tr.at("from").dump();
        auto it = states.find(fromKey);
        if (it == states.end())
            return false;
        ++transitions;
        const json &call = tr.at("c");
        const std::string expOut = tr.at("out");
        ++opCount[call.at("op").get<std::string>()];
        ++outCount[expOut];
        if (expOut != "ok")
            ++rejected;
        if (samples.size() < 4 && (transitions % 97 == 1))
            samples.push_back({{"from", tr["from"]}, {"call", call}, {"out", expOut}, {"to", tr["to"]}});
        const std::string toKey = tr.at("to").dump();
        const std::string callStr = call.dump();
        // iterate over a snapshot of the representatives' count (vector may grow)
        size_t nreps = it->second.size();
        for (size_t ri = 0; ri < nreps; ++ri) {
            Rep &rep = states[fromKey][ri];
            Rep next;
            next.hist = std::make_shared<Hist>(Hist{rep.hist, callStr});
            bool allOk = true;
            for (size_t fam = 0; fam < rep.objs.size(); ++fam) {
                ++executions;
                {
                    json cur = {{"group", group}, {"family_index", fam}, {"family", rep.objs[fam]->family()},
                                {"history", histToJson(rep.hist)}, {"call", call}, {"kind", "walk"},
                                {"expected", {{"out", expOut}}}};
                    setCurrent(cur.dump());
                }
                std::unique_ptr<IObj> o = rep.objs[fam]->clone();
                json before = (expOut != "ok") ? o->exact() : json();
                std::string out = o->apply(call);
                const json fullObs = o->project();
                if (!compare) {
                    std::string blob = fromKey + "|" + callStr + "|" + std::to_string(fam) + "|" + out + "|" + fullObs.dump() +
                                       "|" + o->enc().dump();
                    digest += std::hash<std::string>()(blob) * 1099511628211ull + blob.size();
                    next.objs.push_back(std::move(o));
                    continue;
                }
                json obs = rs.ofObs(fullObs);
                json enc = rs.ofState(o->enc());
                json expObs = rs.ofObs(tr.at("obs"));
                const json expEnc = rs.ofState(tr.at("to"));
                rs.mask(tr.at("obs"), fullObs, expObs, obs);
                std::string why;
                // C03 (mask_by_has): once the real object and the specification disagree on which
                // pairs are edges - another property's subject - the values of the labels along
                // this history can no longer be predicted: the history is not followed further
                const bool divergedEdges = rs.maskByHas && tr.at("obs").contains("has") && fullObs.contains("has") &&
                                           tr.at("obs")["has"] != fullObs["has"];
                if (divergedEdges) {
                    ++divergedExecs;
                    allOk = false;
                    next.objs.push_back(std::move(o));
                    continue;
                }
                if (!checkValid && expOut == "ok")
                    ; // a valid call in a rejected-calls scenario: executed to reach the next state only
                else if ((checkValid ? ((out == "ok") != (expOut == "ok")) : (out != expOut)) &&
                         !(rs.maskByHas && out != "out_of_range" && expOut != "out_of_range"))
                    // (which exception a rejected call throws is C07's subject: the other checks only
                    // distinguish accepted from rejected calls)
                    // (with mask_by_has an ok/invalid_argument difference follows from a
                    // disagreement about which pairs are edges: not this check's subject)
                    why = "outcome: expected " + expOut + ", got " + out;
                else if (!checkValid)
                    why = (o->exact() != before)
                              ? "rejected call changed the object: " + before.dump() + " -> " + o->exact().dump()
                              : "";
                else if (enc != expEnc || obs != expObs) {
                    json d = json::array();
                    int budget = 8;
                    diffJson(expEnc, enc, "state", d, budget);
                    diffJson(expObs, obs, "obs", d, budget);
                    why = "observers differ: " + d.dump();
                } else if (expOut != "ok" && o->exact() != before)
                    why = "rejected call changed the object: " + before.dump() + " -> " + o->exact().dump();
                else if (checkEq) {
                    // copies are equal and independent; == is reflexive (C06/C09 light)
                    if (!o->equals(*o) || o->differs(*o))
                        why = "operator== not reflexive";
                    else if (call.at("op") != "resize" && enc != rep.objs[fam]->enc() &&
                             o->equals(*rep.objs[fam]) && tr.at("to").at("lab") != tr.at("from").at("lab"))
                        ; // label-only changes are covered by Pair.tla
                }
                if (!why.empty()) {
                    allOk = false;
                    fail(rep, fam, tr, why, {{"out", out}, {"enc", enc}, {"obs", obs}});
                }
                next.objs.push_back(std::move(o));
            }
            if (allOk) {
                auto &vec = states[toKey];
                if (vec.size() < maxReps) {
                    next.sig = next.objs[0]->exact().dump();
                    bool dup = false;
                    for (auto &r : vec)
                        if (r.sig == next.sig)
                            dup = true;
                    if (!dup) {
                        vec.push_back(std::move(next));
                        ++repsStored;
                    }
                }
            }
        }
        return true;
    };

    std::string line;
    json tr;
    while (std::getline(std::cin, line)) {
        if (!parseLine(line, tr) || !tr.contains("from") || !tr.contains("c"))
            continue;
        if (!process(tr))
            pending.push_back(tr);
    }
    // transitions whose source state had not been produced yet (should not happen
    // with TLC's BFS, kept as a safety net)
    for (int round = 0; round < 50 && !pending.empty(); ++round) {
        std::vector<json> still;
        for (auto &p : pending)
            if (!process(p))
                still.push_back(p);
        if (still.size() == pending.size())
            break;
        pending.swap(still);
    }
    orphan = pending.size();

    json fams = json::array();
    for (auto &f : facs)
        fams.push_back(f()->family());
    json summary = {{"mode", "walk"},      {"group", group},       {"families", fams},
                    {"transitions", transitions}, {"executions", executions}, {"states", states.size()},
                    {"representatives", repsStored}, {"rejected_transitions", rejected},
                    {"failures", failures}, {"orphan_transitions", orphan}, {"histories_left_after_edge_divergence", divergedExecs},
                    {"replays", replays}, {"digest", std::to_string(digest)},
                    {"fail_notes", failNotes}, {"ops", opCount}, {"outcomes", outCount}, {"samples", samples}};
    std::cout << "SUMMARY " << summary.dump() << std::endl;
    return failures ? 1 : (orphan ? 2 : 0);
}


// ---------------------------------------------------------------- walkpair (C06)
// The product state graph of Pair.tla: two objects per family, operator== and != after
// every step, copy construction and assignment.
struct PairRep {
    std::vector<std::unique_ptr<IObj>> a, b;
    std::shared_ptr<Hist> hist;
    std::string sig;
};
static int walkpair(const json &plan) {
    const std::string group = plan.at("group");
    const size_t maxReps = plan.value("reps", 2);
    const size_t maxFail = plan.value("max_fail", 3);
    const std::string replayDir = plan.value("replay_dir", std::string("."));
    const std::string tag = plan.value("tag", group);
    installCrashNote(plan.value("crash_note", std::string()));
    auto &facs = registry()[group];
    if (facs.empty())
        return 2;
    std::unordered_map<std::string, std::vector<PairRep>> states;
    {
        PairRep r;
        const int initN = plan.value("init_n", 0);
        for (auto &f : facs) {
            r.a.push_back(f());
            r.b.push_back(f());
            if (initN) {
                json rz = {{"op", "resize"}, {"k", initN}};
                r.a.back()->apply(rz);
                r.b.back()->apply(rz);
            }
        }
        json key = json::array({r.a[0]->enc(), r.b[0]->enc()});
        states[key.dump()].push_back(std::move(r));
    }
    size_t transitions = 0, executions = 0, failures = 0, copies = 0, eqTrue = 0, eqFalse = 0, repsStored = 1;
    json replays = json::array(), failNotes = json::array(), samples = json::array();
    std::vector<json> pending;
    auto process = [&](const json &tr) -> bool {
        std::string fromKey = tr.at("from").dump();
        auto it = states.find(fromKey);
        if (it == states.end())
            return false;
        ++transitions;
        const json &act = tr.at("act");
        const std::string toKey = tr.at("to").dump();
        const std::string actKind = act.at("kind");
        const bool isCopy = actKind == "copy";
        const bool isSwap = actKind == "swap", isSelf = actKind == "selfassign";
        if (isCopy || isSwap || isSelf)
            ++copies;
        if (tr.at("eq").at("e12").get<bool>())
            ++eqTrue;
        else
            ++eqFalse;
        if (samples.size() < 3 && transitions % 211 == 7)
            samples.push_back({{"from", tr["from"]}, {"act", act}, {"to", tr["to"]}, {"eq", tr["eq"]}});
        size_t nreps = it->second.size();
        for (size_t ri = 0; ri < nreps; ++ri) {
            PairRep &rep = states[fromKey][ri];
            PairRep next;
            next.hist = std::make_shared<Hist>(Hist{rep.hist, act.dump()});
            bool allOk = true;
            for (size_t fam = 0; fam < rep.a.size(); ++fam) {
                ++executions;
                setCurrent(json({{"kind", "walkpair"}, {"group", group}, {"family_index", fam},
                                 {"history", histToJson(rep.hist)}, {"act", act}}).dump());
                std::unique_ptr<IObj> x = rep.a[fam]->clone(), y = rep.b[fam]->clone();
                std::string why;
                const json xBefore = x->enc(), yBefore = y->enc();
                std::string valueWhy;      // the values after a copy / move / swap / self-assignment
                if (isCopy) {
                    IObj &src = act.at("src") == 1 ? *x : *y;
                    const json srcBefore = act.at("src") == 1 ? xBefore : yBefore;
                    const std::string how = act.at("how");
                    if (how == "construct" || how == "moveconstruct") {
                        std::unique_ptr<IObj> c = how == "construct" ? src.clone() : src.moveClone();
                        if (act.at("dst") == 1)
                            x = std::move(c);
                        else
                            y = std::move(c);
                    } else {
                        IObj &dst = act.at("dst") == 1 ? *x : *y;
                        if (how == "assign")
                            dst.assignFrom(src);
                        else
                            dst.moveAssignFrom(src);
                    }
                    if (x->enc() != srcBefore || y->enc() != srcBefore)
                        valueWhy = how + ": the receiver (or the source afterwards) does not hold the source's value: a = " +
                                   x->enc().dump() + " b = " + y->enc().dump() + " source was " + srcBefore.dump();
                } else if (isSwap) {
                    x->swapWith(*y);
                    if (x->enc() != yBefore || y->enc() != xBefore)
                        valueWhy = "std::swap did not exchange the values: a = " + x->enc().dump() + " b = " + y->enc().dump();
                } else if (isSelf) {
                    IObj &o = act.at("obj") == 1 ? *x : *y;
                    o.selfAssign();
                    if (x->enc() != xBefore || y->enc() != yBefore)
                        valueWhy = "self-assignment changed the object: " + o.enc().dump();
                } else {
                    IObj &o = act.at("obj") == 1 ? *x : *y;
                    std::string out = o.apply(act.at("c"));
                    if (out != "ok")
                        why = "call outcome " + out;
                }
                bool e12 = x->equals(*y), e21 = y->equals(*x), e11 = x->equals(*x), e22 = y->equals(*y);
                // C06's oracle is the pair of graphs the two REAL objects show through the public
                // API (same vertices, same edges, equal attributes) - not the specification's
                // states, so a defect in some mutator is not reported as a defect of operator==
                const bool same = x->abstractGraph() == y->abstractGraph();
                json eq = {{"e12", same}, {"e21", same}, {"e11", true}, {"e22", true}};
                if (!why.empty())
                    why.clear(); // (a mutator's outcome is not C06's business)
                if (e12 != same || e21 != same || !e11 || !e22)
                    why = "operator== : the two objects show " + std::string(same ? "the same graph" : "different graphs") +
                          " but == gives " + json({{"e12", e12}, {"e21", e21}, {"e11", e11}, {"e22", e22}}).dump() +
                          "; a = " + x->abstractGraph().dump() + " b = " + y->abstractGraph().dump();
                else if (isCopy && !same)
                    why = "a copy does not equal its source";
                else if (!valueWhy.empty())
                    why = valueWhy;
                else if (actKind == "call" && (act.at("obj") == 1 ? y->exact() != rep.b[fam]->exact() : x->exact() != rep.a[fam]->exact()))
                    why = "a call on one object changed the other one (copies are not independent)";
                else if (why.empty() && (x->differs(*y) == e12 || y->differs(*x) == e21 || x->differs(*x) == e11))
                    why = "operator!= is not the negation of operator==";
                if (!why.empty()) {
                    allOk = false;
                    ++failures;
                    if (replays.size() < maxFail) {
                        json r = {{"kind", "walkpair"}, {"group", group}, {"family_index", fam},
                                  {"family", rep.a[fam]->family()}, {"history", histToJson(rep.hist)}, {"act", act},
                                  {"expected", {{"to", tr["to"]}, {"eq", tr["eq"]}}}, {"why", why}};
                        std::string path = replayDir + "/" + tag + "-" + std::to_string(replays.size()) + ".json";
                        std::ofstream(path) << r.dump(1) << "\n";
                        replays.push_back(path);
                        failNotes.push_back(rep.a[fam]->family() + ": " + act.dump() + ": " + why);
                    }
                }
                next.a.push_back(std::move(x));
                next.b.push_back(std::move(y));
            }
            if (allOk) {
                auto &vec = states[toKey];
                if (vec.size() < maxReps) {
                    next.sig = next.a[0]->exact().dump() + next.b[0]->exact().dump();
                    bool dup = false;
                    for (auto &r : vec)
                        if (r.sig == next.sig)
                            dup = true;
                    if (!dup) {
                        vec.push_back(std::move(next));
                        ++repsStored;
                    }
                }
            }
        }
        return true;
    };
    std::string line;
    json tr;
    while (std::getline(std::cin, line)) {
        if (!parseLine(line, tr) || !tr.contains("from") || !tr.contains("act"))
            continue;
        if (!process(tr))
            pending.push_back(tr);
    }
    for (int round = 0; round < 50 && !pending.empty(); ++round) {
        std::vector<json> still;
        for (auto &p : pending)
            if (!process(p))
                still.push_back(p);
        if (still.size() == pending.size())
            break;
        pending.swap(still);
    }
    json fams = json::array();
    for (auto &f : facs)
        fams.push_back(f()->family());
    json summary = {{"mode", "walkpair"}, {"group", group}, {"families", fams}, {"transitions", transitions},
                    {"executions", executions}, {"states", states.size()}, {"representatives", repsStored},
                    {"copy_transitions", copies}, {"eq_true", eqTrue}, {"eq_false", eqFalse},
                    {"failures", failures}, {"orphan_transitions", pending.size()}, {"replays", replays},
                    {"fail_notes", failNotes}, {"samples", samples}};
    std::cout << "SUMMARY " << summary.dump() << std::endl;
    return failures ? 1 : (pending.empty() ? 0 : 2);
}

// ---------------------------------------------------------------- record
static int record(const json &plan) {
    const std::string group = plan.at("group");
    const size_t famIdx = plan.value("family_index", 0);
    const unsigned seed = plan.value("seed", 1u);
    const int histories = plan.value("histories", 20);
    const int steps = plan.value("steps", 100);
    const int nmax = plan.value("nmax", 6);
    (void)nmax;
    std::vector<std::string> ops = plan.at("ops");
    // index embedding: the history uses vertices 0..k-1, the real object the vertices embed[0..k-1]
    // of a graph with embed[k-1]+1 vertices (one resize at the start of every history)
    const std::vector<unsigned> embed = plan.value("embed", std::vector<unsigned>{});
    if (!embed.empty())
        ops.erase(std::remove(ops.begin(), ops.end(), std::string("resize")), ops.end());
    const std::vector<int> labels = plan.value("labels", std::vector<int>{0, 1, 2});
    const std::vector<int> mults = plan.value("mults", std::vector<int>{0, 1, 2, 3});
    const std::vector<int> weights = plan.value("weights", std::vector<int>{-1, 0, 2, 3});
    const std::vector<bool> forces = plan.value("forces", std::vector<bool>{false});
    const std::vector<int> bad = plan.value("bad", std::vector<int>{});
    const std::string kind = plan.at("kind"); // nolabel | labeled | multi | weighted
    const bool directed = plan.at("directed");
    const int maxCopies = plan.value("max_copies", 3);
    const int multCap = plan.value("mult_cap", 0);
    installCrashNote(plan.value("crash_note", std::string()));
    const Restrict rs(plan);
    auto &facs = registry()[group];
    if (famIdx >= facs.size()) {
        std::cerr << "bad family index\n";
        return 2;
    }
    std::ostream &os = std::cout;
    std::mt19937 rng(seed);
    auto pick = [&](size_t n) { return (size_t)(rng() % n); };
    size_t events = 0;
    const int nmaxBase = nmax;
    const int bigEvery = plan.value("big_every", 0);
    // "dense" histories: a large graph (sizes given by the plan) filled with many edges first,
    // so that vertices of high degree, indices beyond 32 / 64 and large label maps occur
    // each size is used twice: once dense (about 3n insertions, half of them leaving one hub
    // vertex) and once sparse (about n/2 insertions, many self-loops), both followed by mixed calls
    std::vector<int> dense = plan.value("dense", std::vector<int>{});
    {
        std::vector<int> twice;
        for (int d : dense) {
            twice.push_back(d);
            twice.push_back(-d);
        }
        dense.swap(twice);
    }
    const int totalHistories = histories + (int)dense.size();
    for (int h = 0; h < totalHistories; ++h) {
        const bool isDense = h >= histories;
        const bool isSparse = isDense && dense[h - histories] < 0;
        const int denseN = isDense ? std::abs(dense[h - histories]) : 0;
        const int fillSteps = isSparse ? denseN / 2 : denseN * 3;
        // every big_every-th history runs on a larger graph (up to twice the vertices)
        const int nmax = isDense ? denseN : (bigEvery && h % bigEvery == bigEvery - 1) ? nmaxBase * 2 : nmaxBase;
        const int steps = isDense ? fillSteps + denseN + 60 : plan.value("steps", 100);
        std::unique_ptr<IObj> o = facs[famIdx]();
        if (!embed.empty())
            o->setEmbedding(embed);
        os << json({{"c", {{"op", "reset"}}}}).dump() << "\n";
        json hist = json::array();
        int n = 0;
        for (int s = 0; s < steps; ++s) {
            json c;
            // first call of a history: give the graph some vertices
            std::string op = (s == 0) ? "resize" : ops[pick(ops.size())];
            if (isDense && s > 0 && s < fillSteps && pick(8) != 0) {
                // filling phase: mostly insertions (a hub first, then everywhere)
                op = (kind == "multi" && pick(2)) ? "addMultiedge" : "addEdge";
                if (std::find(ops.begin(), ops.end(), op) == ops.end())
                    op = "addEdge";
            }
            auto vert = [&]() -> int {
                if (!bad.empty() && pick(12) == 0) {
                    int b = bad[pick(bad.size())];
                    return b < 0 ? -1 : n + b;
                }
                return n == 0 ? 0 : (int)pick(n);
            };
            if (n == 0 && bad.empty() && op != "resize" && op != "clearEdges" && op != "removeSelfLoops" &&
                op != "removeDuplicateEdges" && op != "relocate")
                op = "resize";
            c["op"] = op;
            if (op == "resize") {
                int k = (s == 0) ? (isDense ? nmax : (int)pick(nmax + 1)) : n + (int)pick(nmax - n + 1);
                if (!embed.empty())
                    k = (int)embed.size();
                if (!bad.empty() && n > 0 && pick(6) == 0)
                    k = (int)pick(n); // invalid: shrinking
                c["k"] = k;
            } else if (op == "removeVertexFromEdgeList" || op == "getOutNeighbours" || op == "getOutDegree" ||
                       op == "getInDegree" || op == "getDegree" || op == "assertVertexInRange") {
                c["v"] = vert();
            } else if (op == "clearEdges" || op == "removeSelfLoops" || op == "removeDuplicateEdges") {
            } else if (op == "relocate") {
                static const char *hows[] = {"copyassign", "moveassign", "moveconstruct", "swap", "selfassign"};
                c["how"] = hows[pick(5)];
            } else {
                c["i"] = vert();
                c["j"] = pick(5) == 0 ? c["i"].get<int>() : vert(); // favour self-loops a little
                if (isDense && !isSparse && s < fillSteps && n > 2 && pick(2) == 0)
                    c[pick(4) ? "i" : "j"] = n - 2; // a hub among the highest indices, mostly as the source
                if (isSparse && s < fillSteps && pick(3) == 0)
                    c["j"] = c["i"]; // many self-loops on a sparse graph
                bool f = forces[pick(forces.size())];
                if (op == "addEdge") {
                    if (kind == "labeled" || kind == "nolabel")
                        c["l"] = kind == "nolabel" ? 0 : labels[pick(labels.size())];
                    if (kind == "weighted")
                        c["w"] = weights[pick(weights.size())];
                    c["f"] = f;
                } else if (op == "addEdgeD")
                    c["f"] = f;
                else if (op == "addReciprocalEdge") {
                    if (kind == "labeled" || kind == "nolabel")
                        c["l"] = kind == "nolabel" ? 0 : labels[pick(labels.size())];
                    c["f"] = kind == "weighted" ? (bool)pick(2) : f;
                } else if (op == "setEdgeLabel") {
                    c["l"] = labels[pick(labels.size())];
                    c["f"] = false;
                } else if (op == "addMultiedge" || op == "addReciprocalMultiedge") {
                    c["k"] = mults[pick(mults.size())];
                    c["f"] = f;
                } else if (op == "removeMultiedge" || op == "setEdgeMultiplicity")
                    c["k"] = mults[pick(mults.size())];
                else if (op == "setEdgeWeight")
                    c["w"] = weights[pick(weights.size())];
            }
            // duplicates on the multigraph / weighted classes: only insertions,
            // removeDuplicateEdges and reads are specified (C16)
            bool isAdd = op == "addEdge" || op == "addEdgeD" || op == "addReciprocalEdge" || op == "addMultiedge" ||
                         op == "addReciprocalMultiedge";
            json nbr = o->enc()["adj"];
            bool hasDup = false;
            int maxc = 0;
            for (auto &row : nbr)
                for (auto &x : row) {
                    hasDup = hasDup || x.get<int>() > 1;
                    maxc = std::max(maxc, x.get<int>());
                }
            bool mutator = !(op == "hasEdge" || op == "getEdgeLabel" || op == "getEdgeLabelNoThrow" ||
                             op == "getEdgeMultiplicity" || op == "getEdgeWeight" || op == "getOutNeighbours" ||
                             op == "getOutDegree" || op == "getInDegree" || op == "getDegree" ||
                             op == "assertVertexInRange");
            if ((kind == "multi" || kind == "weighted") && hasDup && mutator && !isAdd && op != "removeDuplicateEdges")
                c = {{"op", "removeDuplicateEdges"}};
            if (kind == "multi" && hasDup && isAdd)
                c["f"] = true; // unforced increments of a duplicated pair are outside C16
            // C16 speaks of copies that all carry the same weight / multiplicity: a forced
            // insertion over an existing pair of these classes repeats the stored value
            if ((kind == "multi" || kind == "weighted") && isAdd && c.value("f", false)) {
                int ci = c["i"].get<int>(), cj = c["j"].get<int>();
                if (ci >= 0 && cj >= 0 && ci < n && cj < n) {
                    json st = o->enc();
                    int a = directed || ci <= cj ? ci : cj, b = directed || ci <= cj ? cj : ci;
                    int cur = st["lab"][a][b].get<int>();
                    bool present = nbr[a][b].get<int>() > 0;
                    if (kind == "multi") {
                        int k = present ? cur : (c.contains("k") ? c["k"].get<int>() : 1);
                        c = {{"op", "addMultiedge"}, {"i", ci}, {"j", cj}, {"k", k}, {"f", true}};
                    } else {
                        int w = present ? cur : (c.contains("w") ? c["w"].get<int>() : 2);
                        c = {{"op", "addEdge"}, {"i", ci}, {"j", cj}, {"w", w}, {"f", true}};
                    }
                }
            }
            if (isAdd && c.value("f", false) && maxc >= maxCopies) {
                if (kind == "multi" && hasDup)
                    c = {{"op", "removeDuplicateEdges"}};
                else
                    c["f"] = false;
            }
            // keep stored multiplicities within the cap (see mult_cap): an insertion that would
            // exceed it becomes a setEdgeMultiplicity to the cap
            if (multCap > 0 && kind == "multi" && isAdd && c.contains("i")) {
                int ci = c["i"].get<int>(), cj = c["j"].get<int>();
                if (ci >= 0 && cj >= 0 && ci < n && cj < n) {
                    json st = o->enc();
                    auto cur = [&](int a, int b) {
                        if (!directed && a > b)
                            std::swap(a, b);
                        int v = st["lab"][a][b].get<int>();
                        return v < 0 ? 0 : v;
                    };
                    int k = c.contains("k") ? c["k"].get<int>() : 1;
                    bool recip = c["op"] == "addReciprocalEdge" || c["op"] == "addReciprocalMultiedge";
                    int most = std::max(cur(ci, cj), recip ? cur(cj, ci) : 0);
                    if (recip && ci == cj)
                        most += k; // a reciprocal insertion of a loop adds twice
                    if (most + k > multCap || c.value("f", false))
                        c = {{"op", "setEdgeMultiplicity"}, {"i", ci}, {"j", cj}, {"k", std::min(multCap, std::max(k, 1))}};
                }
            }
            setCurrent(json({{"kind", "record"}, {"group", group}, {"family_index", famIdx}, {"history", hist}, {"call", c}}).dump());
            std::string out = o->apply(c);
            hist.push_back(c);
            n = (int)o->enc()["n"].get<int>();
            os << json({{"c", c}, {"out", out}, {"obs", rs.ofObs(o->project())}}).dump() << "\n";
            ++events;
        }
    }
    os.flush();
    std::cerr << "SUMMARY " << json({{"mode", "record"}, {"family", facs[famIdx]()->family()}, {"events", events},
                                      {"histories", histories}})
                                    .dump()
              << std::endl;
    return 0;
}

// ---------------------------------------------------------------- recordpair (C06, code -> spec)
// Pairs of objects built by random histories that often denote the same graph; one record
// per comparison for PairTrace.tla.
static int recordpair(const json &plan) {
    const std::string group = plan.at("group");
    const size_t famIdx = plan.value("family_index", 0);
    const unsigned seed = plan.value("seed", 1u);
    const int pairs = plan.value("pairs", 40);
    const std::string kind = plan.at("kind");
    const bool directed = plan.at("directed");
    installCrashNote(plan.value("crash_note", std::string()));
    auto &facs = registry()[group];
    if (famIdx >= facs.size())
        return 2;
    std::mt19937 rng(seed);
    auto pick = [&](size_t n) { return (size_t)(rng() % n); };
    size_t records = 0, equalPairs = 0;
    auto emit = [&](IObj &x, IObj &y, const char *how) {
        json a = x.abstractGraph(), b = y.abstractGraph();
        bool e12 = x.equals(y), e21 = y.equals(x);
        if (a == b)
            ++equalPairs;
        std::cout << json({{"how", how}, {"a", a}, {"b", b}, {"e12", e12}, {"e21", e21}, {"e11", x.equals(x)},
                           {"e22", y.equals(y)}, {"ne12", x.differs(y)}, {"ne21", y.differs(x)}})
                         .dump()
                  << "\n";
        ++records;
    };
    for (int p = 0; p < pairs; ++p) {
        const int n = 4 + (int)pick(p % 5 == 4 ? 21 : 6);
        // a list of edits: (i, j, attribute)
        std::vector<std::tuple<int, int, int>> edits;
        const int m = n + (int)pick(2 * n);
        for (int k = 0; k < m; ++k)
            edits.emplace_back((int)pick(n), (int)pick(n), (int)pick(3) + (kind == "multi" ? 1 : 0));
        auto add = [&](IObj &o, int i, int j, int a, bool flip) {
            if (flip && !directed)
                std::swap(i, j);
            json c;
            if (kind == "multi")
                c = {{"op", "setEdgeMultiplicity"}, {"i", i}, {"j", j}, {"k", a}};
            else if (kind == "weighted")
                c = {{"op", "setEdgeWeight"}, {"i", i}, {"j", j}, {"w", a - 1}};
            else if (kind == "labeled") {
                // same final label whatever the order: add (no-op when present) then set
                o.apply({{"op", "addEdge"}, {"i", i}, {"j", j}, {"l", a}, {"f", false}});
                c = {{"op", "setEdgeLabel"}, {"i", i}, {"j", j}, {"l", a}, {"f", false}};
            } else
                c = {{"op", "addEdge"}, {"i", i}, {"j", j}, {"l", 0}, {"f", false}};
            o.apply(c);
        };
        std::unique_ptr<IObj> x = facs[famIdx](), y = facs[famIdx]();
        x->apply({{"op", "resize"}, {"k", n}});
        y->apply({{"op", "resize"}, {"k", n / 2}});
        y->apply({{"op", "resize"}, {"k", n}}); // grown in two steps
        // the last edit of each pair wins: apply x in order; y in a different order that keeps
        // the last edit of every pair last
        for (auto &e : edits)
            add(*x, std::get<0>(e), std::get<1>(e), std::get<2>(e), false);
        std::vector<size_t> order(edits.size());
        for (size_t k = 0; k < order.size(); ++k)
            order[k] = k;
        std::map<std::pair<int, int>, size_t> last;
        for (size_t k = 0; k < edits.size(); ++k) {
            int i = std::get<0>(edits[k]), j = std::get<1>(edits[k]);
            if (!directed && i > j)
                std::swap(i, j);
            last[{i, j}] = k;
        }
        std::shuffle(order.begin(), order.end(), rng);
        for (size_t k : order) { // everything that is not a pair's last edit first ...
            int i = std::get<0>(edits[k]), j = std::get<1>(edits[k]);
            int ci = i, cj = j;
            if (!directed && ci > cj)
                std::swap(ci, cj);
            if (last[{ci, cj}] != k)
                add(*y, i, j, std::get<2>(edits[k]), pick(2));
        }
        for (size_t k : order) { // ... then the last edits, in any order
            int i = std::get<0>(edits[k]), j = std::get<1>(edits[k]);
            int ci = i, cj = j;
            if (!directed && ci > cj)
                std::swap(ci, cj);
            if (last[{ci, cj}] == k)
                add(*y, i, j, std::get<2>(edits[k]), pick(2));
        }
        emit(*x, *y, "same edits, different order");
        // y holds and loses extra edges / labels
        for (int k = 0; k < 3; ++k) {
            int i = (int)pick(n), j = (int)pick(n);
            json before = y->abstractGraph();
            bool had = before["has"][i][j].get<int>() == 1;
            if (!had) {
                add(*y, i, j, 1 + (int)pick(2), false);
                emit(*x, *y, "one extra edge");
                y->apply({{"op", "removeEdge"}, {"i", i}, {"j", j}});
                if (kind == "multi")
                    y->apply({{"op", "setEdgeMultiplicity"}, {"i", i}, {"j", j}, {"k", 0}});
                emit(*x, *y, "extra edge removed again");
            }
        }
        // a copy, changed and changed back
        std::unique_ptr<IObj> z = x->clone();
        emit(*x, *z, "copy");
        z->apply({{"op", "removeVertexFromEdgeList"}, {"v", (int)pick(n)}});
        emit(*x, *z, "copy after removeVertexFromEdgeList");
        z->assignFrom(*x);
        emit(*x, *z, "assigned back");
        // the value handed on by move construction, move assignment, swap, self-assignment
        {
            std::unique_ptr<IObj> m = x->moveClone();
            emit(*x, *m, "move-constructed (source restored)");
            std::unique_ptr<IObj> m2 = y->clone();
            m2->moveAssignFrom(*m);
            emit(*x, *m2, "move-assigned over another graph");
            std::unique_ptr<IObj> s1 = x->clone(), s2 = y->clone();
            s1->swapWith(*s2);
            emit(*x, *s2, "swapped (holds the first graph)");
            emit(*y, *s1, "swapped (holds the second graph)");
            s2->selfAssign();
            emit(*x, *s2, "self-assigned");
        }
        // two edges moved at one source: same degrees, different neighbours
        {
            std::unique_ptr<IObj> w = x->clone();
            int s0 = (int)pick(n);
            json ag = w->abstractGraph();
            std::vector<int> nb, non;
            for (int j = 0; j < n; ++j)
                (ag["has"][s0][j].get<int>() ? nb : non).push_back(j);
            if (nb.size() >= 2 && non.size() >= 2 && kind != "multi" && kind != "weighted") {
                for (int t = 0; t < 2; ++t) {
                    w->apply({{"op", "removeEdge"}, {"i", s0}, {"j", nb[t]}});
                    add(*w, s0, non[t], 1, false);
                }
                emit(*x, *w, "two edges moved at one vertex");
            }
        }
    }
    std::cout.flush();
    std::cerr << "SUMMARY " << json({{"mode", "recordpair"}, {"family", facs[famIdx]()->family()}, {"records", records},
                                      {"pairs_showing_the_same_graph", equalPairs}})
                                    .dump()
              << std::endl;
    return 0;
}

// ---------------------------------------------------------------- replay
static int replayPair(const json &r) {
    auto &facs = registry()[r.at("group").get<std::string>()];
    size_t fam = r.value("family_index", 0);
    if (fam >= facs.size())
        return 2;
    std::unique_ptr<IObj> x = facs[fam](), y = facs[fam]();
    std::cout << "family: " << x->family() << "\n";
    bool consistent = true;
    auto doAct = [&](const json &act) {
        bool valuesOk = true;
        if (act.at("kind") == "copy") {
            IObj &src = act.at("src") == 1 ? *x : *y;
            const json srcBefore = src.enc();
            const std::string how = act.at("how");
            if (how == "construct" || how == "moveconstruct") {
                auto c = how == "construct" ? src.clone() : src.moveClone();
                (act.at("dst") == 1 ? x : y) = std::move(c);
            } else if (how == "assign")
                (act.at("dst") == 1 ? *x : *y).assignFrom(src);
            else
                (act.at("dst") == 1 ? *x : *y).moveAssignFrom(src);
            valuesOk = x->enc() == srcBefore && y->enc() == srcBefore;
        } else if (act.at("kind") == "swap") {
            const json xb = x->enc(), yb = y->enc();
            x->swapWith(*y);
            valuesOk = x->enc() == yb && y->enc() == xb;
        } else if (act.at("kind") == "selfassign") {
            IObj &o = act.at("obj") == 1 ? *x : *y;
            const json before = o.enc();
            o.selfAssign();
            valuesOk = o.enc() == before;
        } else if (act.at("kind") == "call")
            (act.at("obj") == 1 ? *x : *y).apply(act.at("c"));
        bool same = x->abstractGraph() == y->abstractGraph();
        bool good = x->equals(*y) == same && y->equals(*x) == same && x->equals(*x) && y->equals(*y) &&
                    x->differs(*y) != x->equals(*y) && valuesOk;
        consistent = consistent && good;
        std::cout << "  " << act.dump() << "  ->  same graph:" << same << " a==b:" << x->equals(*y) << " b==a:" << y->equals(*x)
                  << " a!=b:" << x->differs(*y) << (good ? "" : "   <-- operator== disagrees with the graphs shown") << "\n";
    };
    for (auto &a : r.at("history"))
        doAct(a);
    doAct(r.at("act"));
    std::cout << "a: " << x->abstractGraph().dump() << "\nb: " << y->abstractGraph().dump() << "\n";
    std::cout << (consistent ? "REPLAY: conforms" : "REPLAY: diverges") << "\n";
    return consistent ? 0 : 1;
}

static int replay(const json &r) {
    if (r.value("kind", std::string()) == "walkpair")
        return replayPair(r);
    const std::string group = r.at("group");
    size_t fam = r.value("family_index", 0);
    auto &facs = registry()[group];
    if (fam >= facs.size())
        return 2;
    auto o = facs[fam]();
    std::cout << "family: " << o->family() << "\n";
    for (auto &c : r.at("history")) {
        std::string out = o->apply(c);
        std::cout << "  " << c.dump() << " -> " << out << "\n";
    }
    if (r.contains("call")) {
        std::string out = o->apply(r["call"]);
        std::cout << "* " << r["call"].dump() << " -> " << out << "\n";
        json obs = o->project(), enc = o->enc();
        std::cout << "actual state: " << enc.dump() << "\n";
        std::cout << "actual obs:   " << obs.dump() << "\n";
        if (r.contains("expected")) {
            const json &e = r["expected"];
            json d = json::array();
            int budget = 50;
            if (e.contains("to"))
                diffJson(e["to"], enc, "state", d, budget);
            if (e.contains("obs"))
                diffJson(e["obs"], obs, "obs", d, budget);
            bool same = d.empty() && (!e.contains("out") || e["out"] == out);
            std::cout << "expected out: " << e.value("out", std::string("?")) << "\n";
            std::cout << "differences:  " << d.dump(1) << "\n";
            std::cout << (same ? "REPLAY: conforms" : "REPLAY: diverges") << "\n";
            return same ? 0 : 1;
        }
    }
    std::cout << o->text();
    return 0;
}

int main(int argc, char **argv) {
    if (argc < 3) {
        std::cerr << "usage: gh walk|record|replay <plan.json>\n";
        return 2;
    }
    std::string mode = argv[1];
    json plan;
    {
        std::ifstream f(argv[2]);
        if (!f) {
            std::cerr << "cannot read " << argv[2] << "\n";
            return 2;
        }
        f >> plan;
    }
    if (mode == "walk")
        return walk(plan);
    if (mode == "walkpair")
        return walkpair(plan);
    if (mode == "record")
        return record(plan);
    if (mode == "recordpair")
        return recordpair(plan);
    if (mode == "replay")
        return replay(plan);
    return 2;
}
