// One translation unit per instantiated graph class (compiled in parallel):
//   -DVGROUP='"dl"' -DVTYPE='BaseGraph::LabeledDirectedGraph<int>'
#include "registry.hpp"
static verif::Registrar<VTYPE> registrar_(VGROUP);
