// ah <plan.json>: reads cases (JSON lines printed by TLC, or plain ndjson) on stdin, runs
// every registered family that handles the case kind, writes the records that TLC is to
// validate to plan.records (ndjson) and a SUMMARY line to stdout.
#include "algo.hpp"

#include <csignal>
#include <cstring>
#include <fcntl.h>
#include <fstream>
#include <iostream>
#include <unistd.h>

#if defined(__has_feature)
#if __has_feature(address_sanitizer) || __has_feature(thread_sanitizer)
#define VERIF_SANITIZER 1
#include <sanitizer/common_interface_defs.h>
#endif
#endif

using namespace verif;

static char g_current[1 << 16];
static int g_crashfd = -1;
static void dumpCurrent() {
    if (g_crashfd >= 0) {
        ssize_t r = write(g_crashfd, g_current, strnlen(g_current, sizeof g_current));
        (void)r;
    }
}
static void onSignal(int sig) {
    dumpCurrent();
    _exit(100 + sig);
}
static void onTerminate() {
    dumpCurrent();
    _exit(99);
}

static bool parseLine(const std::string &line, json &out) {
    if (line.size() < 2)
        return false;
    try {
        if (line[0] == '"' && line[1] == '{') {
            out = json::parse(json::parse(line).get<std::string>());
            return true;
        }
        if (line[0] == '{') {
            out = json::parse(line);
            return true;
        }
    } catch (const std::exception &) {
    }
    return false;
}

int main(int argc, char **argv) {
    if (argc < 2)
        return 2;
    json plan;
    {
        std::ifstream f(argv[1]);
        if (!f)
            return 2;
        f >> plan;
    }
    runOptions() = plan.value("options", json::object());
    const std::string replayDir = plan.value("replay_dir", std::string("."));
    const std::string tag = plan.value("tag", std::string("algo"));
    const size_t maxFail = plan.value("max_fail", 3);
    const unsigned seed = plan.value("seed", 1u);
    std::string crash = plan.value("crash_note", std::string());
    if (!crash.empty()) {
        g_crashfd = open(crash.c_str(), O_WRONLY | O_CREAT | O_TRUNC, 0644);
        std::set_terminate(onTerminate);
#ifdef VERIF_SANITIZER
        __sanitizer_set_death_callback(dumpCurrent);
#endif
        // the handlers run on their own stack: a stack overflow still leaves its note
        static char altstack[1 << 16];
        stack_t ss{};
        ss.ss_sp = altstack;
        ss.ss_size = sizeof altstack;
        sigaltstack(&ss, nullptr);
        for (int s : {SIGSEGV, SIGBUS, SIGABRT, SIGFPE, SIGILL, SIGALRM}) {
            struct sigaction sa{};
            sa.sa_handler = onSignal;
            sa.sa_flags = SA_ONSTACK;
            sigaction(s, &sa, nullptr);
        }
    }
    std::ofstream rec;
    if (plan.contains("records"))
        rec.open(plan.at("records").get<std::string>());
    std::vector<std::string> only = plan.value("families", std::vector<std::string>{});

    size_t cases = 0, runs = 0, failures = 0, nrecords = 0, ndiag = 0;
    json diags = json::array();
    std::map<std::string, size_t> kinds;
    json replays = json::array(), notes = json::array(), samples = json::array(), fams = json::array();
    for (auto &f : algoFamilies())
        fams.push_back(f->name());
    std::string line;
    json c;
    const size_t stopAfter = plan.value("stop_after_failures", 50);
    while (std::getline(std::cin, line)) {
        if (failures >= stopAfter)
            continue; // enough evidence: drain the input without running further cases
        if (!parseLine(line, c) || !c.contains("k"))
            continue;
        ++cases;
        const std::string k = c.at("k");
        ++kinds[k];
        if (samples.size() < 3 && cases % 53 == 1)
            samples.push_back(c);
        for (auto &f : algoFamilies()) {
            if (!f->handles(k))
                continue;
            if (!only.empty() && std::find(only.begin(), only.end(), f->name()) == only.end())
                continue;
            ++runs;
            {
                json cur = {{"kind", "algo"}, {"family", f->name()}, {"case", c}};
                std::string s = cur.dump();
                size_t n = std::min(s.size(), sizeof g_current - 1);
                memcpy(g_current, s.data(), n);
                g_current[n] = 0;
                alarm(600); // a case that never returns ends the harness with the crash note
            }
            CaseResult r = f->run(c, seed);
            for (auto &dg : r.diagnostics) {
                ++ndiag;
                if (diags.size() < 3)
                    diags.push_back(f->name() + ": " + dg.substr(0, 300));
            }
            for (auto &x : r.records) {
                if (rec.is_open())
                    rec << x.dump() << "\n";
                ++nrecords;
            }
            if (!r.ok) {
                ++failures;
                if (replays.size() < maxFail) {
                    std::string path = replayDir + "/" + tag + "-" + std::to_string(replays.size()) + ".json";
                    std::ofstream(path) << json({{"kind", "algo"}, {"family", f->name()}, {"case", c}, {"why", r.why}}).dump(1)
                                        << "\n";
                    replays.push_back(path);
                    notes.push_back(f->name() + ": " + k + ": " + r.why.substr(0, 400));
                }
            }
        }
    }
    if (rec.is_open())
        rec.close();
    json summary = {{"mode", "algo"}, {"cases", cases}, {"runs", runs}, {"failures", failures}, {"records", nrecords},
                    {"kinds", kinds}, {"replays", replays}, {"fail_notes", notes}, {"samples", samples},
                    {"families", fams}, {"outside_property_differences", ndiag}, {"outside_property_notes", diags}};
    std::cout << "SUMMARY " << summary.dump() << std::endl;
    return failures ? 1 : 0;
}
