// Common pieces of the conformance harness: label codecs between the
// specification's abstract label alphabet (small integers, 0 = EdgeLabel())
// and concrete C++ label types, and small JSON helpers.
#ifndef VERIF_COMMON_HPP
#define VERIF_COMMON_HPP

#include <nlohmann/json.hpp>

#include <climits>
#include <cstdint>
#include <string>
#include <vector>

#include "BaseGraph/types.h"

using json = nlohmann::json;

namespace verif {

constexpr int NONE_L = -99;  // GraphOps!NoneL
constexpr int UNKNOWN_L = -12345; // a concrete label that is no image of the alphabet

// a user-defined label type (C01/C03/C06 quantify over "user struct")
struct Custom {
    int a = 0;
    std::string s;
    bool operator==(const Custom &o) const { return a == o.a && s == o.s; }
};

template <class L> struct Codec;

template <> struct Codec<BaseGraph::NoLabel> {
    static constexpr const char *name = "NoLabel";
    static BaseGraph::NoLabel enc(int) { return {}; }
    static int dec(const BaseGraph::NoLabel &) { return 0; }
};
template <> struct Codec<int> {
    static constexpr const char *name = "int";
    static int enc(int a) {
        static const int t[] = {0, -10, 7, 100};
        return a >= 0 && a < 4 ? t[a] : 1000 + a;
    }
    static int dec(const int &v) {
        for (int a = 0; a < 4; ++a)
            if (enc(a) == v)
                return a;
        return UNKNOWN_L;
    }
};
template <> struct Codec<unsigned> {
    static constexpr const char *name = "unsigned";
    static unsigned enc(int a) {
        static const unsigned t[] = {0u, 1u, 4000000000u, 77u};
        return a >= 0 && a < 4 ? t[a] : 1000u + a;
    }
    static int dec(const unsigned &v) {
        for (int a = 0; a < 4; ++a)
            if (enc(a) == v)
                return a;
        return UNKNOWN_L;
    }
};
template <> struct Codec<double> {
    static constexpr const char *name = "double";
    static double enc(int a) {
        static const double t[] = {0.0, 1.5, -2.25, 1e300};
        return a >= 0 && a < 4 ? t[a] : 1000.0 + a;
    }
    static int dec(const double &v) {
        for (int a = 0; a < 4; ++a)
            if (enc(a) == v)
                return a;
        return UNKNOWN_L;
    }
};
template <> struct Codec<char> {
    static constexpr const char *name = "char";
    static char enc(int a) {
        static const char t[] = {'\0', 'a', 'Z', '#'};
        return a >= 0 && a < 4 ? t[a] : '?';
    }
    static int dec(const char &v) {
        for (int a = 0; a < 4; ++a)
            if (enc(a) == v)
                return a;
        return UNKNOWN_L;
    }
};
template <> struct Codec<std::string> {
    static constexpr const char *name = "string";
    static std::string enc(int a) {
        static const char *t[] = {"", "a", "hello world", "#x"};
        return a >= 0 && a < 4 ? std::string(t[a]) : "L" + std::to_string(a);
    }
    static int dec(const std::string &v) {
        for (int a = 0; a < 4; ++a)
            if (enc(a) == v)
                return a;
        return UNKNOWN_L;
    }
};
template <> struct Codec<Custom> {
    static constexpr const char *name = "struct";
    static Custom enc(int a) {
        Custom c;
        c.a = a;
        c.s = a == 0 ? "" : std::string(a, 'x');
        return c;
    }
    static int dec(const Custom &v) {
        for (int a = 0; a < 4; ++a)
            if (enc(a) == v)
                return a;
        return UNKNOWN_L;
    }
};

// spec vertex argument -> VertexIndex (MAXU = -1 stands for UINT_MAX)
inline BaseGraph::VertexIndex vtx(const json &j) {
    long long v = j.get<long long>();
    return v < 0 ? UINT_MAX : (BaseGraph::VertexIndex)v;
}

inline json zeroMat(size_t n) { return json(n, json(n, 0)); }

} // namespace verif

#endif
