// Event recorder for the INSTRUMENTED COPY of the BaseGraph headers (lib/instrument.py).
//
// The repository is not modified: at check time the headers of the working tree are copied and
// one `BGV_SCOPE_xx("op", ::bgv::args(...));` statement is inserted as the first statement of
// every public mutator.  The repository's own test programs are then compiled against that copy
// with this file force-included (-include), so every mutator call the 364 tests make - on
// whatever graphs, labels and call orders their authors chose - is logged as one event
//      {cls, kind, lt, op, a: [arguments], out: ok|throw, pre: <raw state>, post: <raw state>}
// where the raw state is the representation itself (size, adjacency lists with order and
// duplicates, the edgeLabels map including entries without an edge, the cached counters).
// SuiteTrace.tla then requires  Step(pre, call) = <out, post>  of every event.
//
// Only the outermost mutator call on a thread is logged (a mutator implemented through other
// mutators is ONE specification action); objects larger than BGV_MAXN vertices are counted, not
// logged.  Nothing is recorded unless BGV_TRACE names a file prefix.  C++14.
#ifndef BGV_TRACE_HPP
#define BGV_TRACE_HPP

#include <cmath>
#include <cstdio>
#include <cstdlib>
#include <exception>
#include <functional>
#include <list>
#include <mutex>
#include <string>
#include <type_traits>
#include <typeinfo>
#include <unistd.h>
#include <unordered_map>
#include <utility>
#include <vector>

namespace BaseGraph { struct NoLabel; }

namespace bgv {

struct Sink {
    std::FILE *f = nullptr;
    size_t maxn = 8;
    std::mutex mu;
    unsigned long events = 0, skippedLarge = 0, nested = 0;
    Sink() {
        const char *p = std::getenv("BGV_TRACE");
        if (p && *p) {
            std::string path = std::string(p) + "." + std::to_string((long)getpid()) + ".ndjson";
            f = std::fopen(path.c_str(), "w");
        }
        if (const char *m = std::getenv("BGV_MAXN")) maxn = (size_t)std::atol(m);
    }
    ~Sink() {
        if (f) {
            std::fprintf(f, "{\"summary\":{\"events\":%lu,\"skipped_large\":%lu,\"nested\":%lu}}\n",
                         events, skippedLarge, nested);
            std::fclose(f);
        }
    }
    void write(const std::string &line) {
        std::lock_guard<std::mutex> g(mu);
        if (f) { std::fputs(line.c_str(), f); std::fputc('\n', f); std::fflush(f); ++events; }
    }
};
inline Sink &sink() { static Sink s; return s; }
inline int &depth() { static thread_local int d = 0; return d; }

// ---- values
inline std::string quote(const std::string &s) {
    std::string o = "\"";
    for (unsigned char c : s) {
        if (c == '"' || c == '\\') { o += '\\'; o += (char)c; }
        else if (c < 0x20 || c >= 0x7f) { char b[8]; std::snprintf(b, sizeof b, "\\u%04x", c); o += b; }
        else o += (char)c;
    }
    return o + "\"";
}
inline std::string val(bool b) { return b ? "true" : "false"; }
inline std::string val(const BaseGraph::NoLabel &) { return "null"; }
inline std::string val(const std::string &s) { return "{\"s\":" + quote(s) + "}"; }
inline std::string val(const char *s) { return "{\"s\":" + quote(s) + "}"; }
template <class T>
typename std::enable_if<std::is_integral<T>::value && !std::is_same<T, bool>::value, std::string>::type
val(T v) {
    return std::is_signed<T>::value ? std::to_string((long long)v) : std::to_string((unsigned long long)v);
}
template <class T>
typename std::enable_if<std::is_floating_point<T>::value, std::string>::type val(T v) {
    if (!std::isfinite((long double)v)) return "{\"x\":\"nonfinite\"}";
    char b[64];
    std::snprintf(b, sizeof b, "%.21Lg", (long double)v);      // enough digits for long double
    return std::string("{\"f\":\"") + b + "\"}";
}
template <class T>
typename std::enable_if<!std::is_arithmetic<T>::value, std::string>::type val(const T &) {
    return "{\"x\":\"opaque\"}";                                // a label type the recorder cannot print
}

inline void argsInto(std::string &) {}
template <class A, class... R>
void argsInto(std::string &o, const A &a, const R &...r) {
    if (o.size() > 1) o += ",";
    o += val(a);
    argsInto(o, r...);
}
template <class... A>
std::string args(const A &...a) {
    std::string o = "[";
    argsInto(o, a...);
    return o + "]";
}

template <class T> struct KindOf { static const char *name() { return "labeled"; } };
template <> struct KindOf<BaseGraph::NoLabel> { static const char *name() { return "nolabel"; } };

// ---- the representation
template <class Lists, class Map, class Tot>
std::string raw(size_t n, const Lists &adj, size_t en, const Map &labels, const Tot *tot) {
    std::string o = "{\"n\":" + std::to_string(n) + ",\"lists\":" + std::to_string(adj.size()) + ",\"adj\":[";
    bool first = true;
    for (const auto &lst : adj) {
        if (!first) o += ",";
        first = false;
        o += "[";
        bool f2 = true;
        for (auto v : lst) { if (!f2) o += ","; f2 = false; o += std::to_string((unsigned long long)v); }
        o += "]";
    }
    o += "],\"en\":" + std::to_string((unsigned long long)en) + ",\"lab\":[";
    first = true;
    for (const auto &kv : labels) {
        if (!first) o += ",";
        first = false;
        o += "[" + std::to_string((unsigned long long)kv.first.first) + "," +
             std::to_string((unsigned long long)kv.first.second) + "," + val(kv.second) + "]";
    }
    o += "],\"tot\":" + (tot ? val(*tot) : std::string("null")) + "}";
    return o;
}

struct Scope {
    bool active = false;
    const char *cls, *kind, *lt, *op;
    std::string a, pre;
    std::function<std::string()> dump;
    Scope(const char *cls_, const char *kind_, const char *lt_, const char *op_, std::string a_, size_t n,
          std::function<std::string()> dump_)
        : cls(cls_), kind(kind_), lt(lt_), op(op_) {
        Sink &s = sink();
        if (depth()++ == 0 && s.f) {
            if (n > s.maxn) { ++s.skippedLarge; return; }
            active = true;
            a = std::move(a_);
            dump = std::move(dump_);
            pre = dump();
        } else if (s.f) {
            ++s.nested;
        }
    }
    ~Scope() {
        --depth();
        if (!active) return;
        bool threw = std::uncaught_exception();
        std::string line = std::string("{\"cls\":\"") + cls + "\",\"kind\":\"" + kind + "\",\"lt\":" + quote(lt) +
                           ",\"op\":\"" + op + "\",\"a\":" + a + ",\"out\":\"" + (threw ? "throw" : "ok") +
                           "\",\"pre\":" + pre + ",\"post\":" + dump() + "}";
        sink().write(line);
    }
};

} // namespace bgv

#define BGV_DUMP_(TOT) [this] { return ::bgv::raw(this->size, this->adjacencyList, this->edgeNumber, this->edgeLabels, TOT); }
#define BGV_SCOPE_DL(op, a) ::bgv::Scope bgv_scope_("DL", ::bgv::KindOf<EdgeLabel>::name(), typeid(EdgeLabel).name(), op, a, this->size, BGV_DUMP_((const int *)nullptr))
#define BGV_SCOPE_UL(op, a) ::bgv::Scope bgv_scope_("UL", ::bgv::KindOf<EdgeLabel>::name(), typeid(EdgeLabel).name(), op, a, this->size, BGV_DUMP_((const int *)nullptr))
#define BGV_SCOPE_DM(op, a) ::bgv::Scope bgv_scope_("DM", "multi", "multiplicity", op, a, this->size, BGV_DUMP_(&this->totalEdgeNumber))
#define BGV_SCOPE_UM(op, a) ::bgv::Scope bgv_scope_("UM", "multi", "multiplicity", op, a, this->size, BGV_DUMP_(&this->totalEdgeNumber))
#define BGV_SCOPE_DW(op, a) ::bgv::Scope bgv_scope_("DW", "weighted", "weight", op, a, this->size, BGV_DUMP_(&this->totalWeight))
#define BGV_SCOPE_UW(op, a) ::bgv::Scope bgv_scope_("UW", "weighted", "weight", op, a, this->size, BGV_DUMP_(&this->totalWeight))

#endif
