// Concurrent read-only use of one graph object (C18).
//   ch <plan.json>
// For each graph class: a shared object is built, every const entry point is run once
// sequentially (baseline result + check that it leaves the object's bytes and containers
// unchanged: empty write set), then reader threads run the entry points concurrently
//   phase 1: without any logging or shared atomics (nothing that could order the threads:
//            this is the phase ThreadSanitizer judges),
//   phase 2: logging Begin/End events stamped by a relaxed atomic counter; the merged log
//            is validated by TLC against ReadersTrace.tla.
// Every result obtained by a thread is compared with the sequential baseline.
#include "objects.hpp"

#include "BaseGraph/algorithms/paths.hpp"
#include "BaseGraph/algorithms/topology.hpp"
#include "BaseGraph/fileio.hpp"

#include <atomic>
#include <cstring>
#include <fstream>
#include <functional>
#include <iostream>
#include <random>
#include <thread>
#include <unordered_set>

using namespace verif;

static std::string g_tmp;

struct Op {
    std::string name;
    std::function<std::string(int tid)> run; // result as a string
};

static unsigned hashStr(const std::string &s) { return (unsigned)(std::hash<std::string>()(s) % 2000000011u); }

template <class C> static json pathsJ(const C &paths) {
    json a = json::array();
    for (auto &p : paths)
        a.push_back(json(std::vector<long long>(p.begin(), p.end())));
    return a;
}

template <class G> void addRandomEdges(G &g, std::mt19937 &rng, size_t n, unsigned percent);

// The shared object is the result of a HISTORY (insertions, removals of every kind, relabelling,
// a resize, more insertions), not only of insertions: lazily maintained state would be stale.
template <class G> void buildRandom(G &g, unsigned seed, size_t n) {
    using I = GInfo<G>;
    std::mt19937 rng(seed);
    g.resize(n);
    addRandomEdges(g, rng, n, 30);
    std::vector<Edge> es;
    for (auto e : g.edges())
        es.push_back(e);
    for (size_t k = 0; k < es.size(); k += 4)
        g.removeEdge(es[k].first, es[k].second);
    for (size_t k = 1; k < es.size(); k += 5) {
        if (!g.hasEdge(es[k].first, es[k].second))
            continue;
        if constexpr (I::kind == KindTag::Labeled) {
            if constexpr (!std::is_same<typename I::Label, NoLabel>::value)
                g.setEdgeLabel(es[k].first, es[k].second, Lab<G>::enc((int)(rng() % 3)));
        } else if constexpr (I::kind == KindTag::Multi)
            g.setEdgeMultiplicity(es[k].first, es[k].second, 1 + rng() % 4);
        else
            g.setEdgeWeight(es[k].first, es[k].second, (double)(rng() % 5));
    }
    g.removeVertexFromEdgeList((VertexIndex)(n / 2));
    g.resize(n + 2);
    addRandomEdges(g, rng, n + 2, 8);
    g.removeEdge(0, 0);
}

template <class G> void addRandomEdges(G &g, std::mt19937 &rng, size_t n, unsigned percent) {
    using I = GInfo<G>;
    for (VertexIndex i = 0; i < n; ++i)
        for (VertexIndex j = 0; j < n; ++j) {
            if (!I::directed && i > j)
                continue;
            if (rng() % 100 < percent) {
                if constexpr (I::kind == KindTag::Labeled)
                    g.addEdge(i, j, Lab<G>::enc((int)(rng() % 3)));
                else if constexpr (I::kind == KindTag::Multi)
                    g.addMultiedge(i, j, 1 + rng() % 3);
                else
                    g.addEdge(i, j, (double)(rng() % 4));
            }
        }
}

// the const entry points of class G on the shared object `sh`
template <class G> std::vector<Op> opsFor(const Obj<G> &sh, const std::string &cls) {
    using I = GInfo<G>;
    const G &g = sh.g;
    std::vector<Op> ops;
    ops.push_back({"observers", [&](int) { return sh.project().dump(); }});
    ops.push_back({"state", [&](int) { return sh.enc().dump() + sh.exact().dump(); }});
    ops.push_back({"copy_and_equality", [&](int) {
                       auto c = sh.clone(); // copy construction from the shared object
                       bool e1 = sh.equals(*c), e2 = c->equals(sh), ne = sh.differs(*c);
                       return c->enc().dump() + (e1 ? "1" : "0") + (e2 ? "1" : "0") + (ne ? "1" : "0");
                   }});
    ops.push_back({"stream_output", [&](int) { return sh.text(); }});
    if constexpr (I::kind == KindTag::Labeled) {
        using L = typename I::Label;
        ops.push_back({"subgraph", [&](int) {
                           std::unordered_set<VertexIndex> S;
                           for (VertexIndex v = 0; v < g.getSize(); v += 2)
                               S.insert(v);
                           auto sub = algorithms::getSubgraph(g, S);
                           auto pr = algorithms::getSubgraphWithRemap(g, S);
                           return Obj<G>(sub).enc().dump() + std::to_string(pr.first.getEdgeNumber()) + "/" +
                                  std::to_string(pr.second.size());
                       }});
        ops.push_back({"bfs_searches", [&](int) {
                           json out = json::array();
                           for (VertexIndex s = 0; s < g.getSize(); s += 3) {
                               auto p = algorithms::findVertexPredecessors(g, s);
                               auto ap = algorithms::findAllVertexPredecessors(g, s);
                               json apj = json::array();
                               for (auto &l : ap.second)
                                   apj.push_back(json(std::vector<long long>(l.begin(), l.end())));
                               out.push_back({json(std::vector<long long>(p.first.begin(), p.first.end())),
                                              json(std::vector<long long>(p.second.begin(), p.second.end())), apj,
                                              pathsJ(algorithms::findGeodesicsFromVertex(g, s))});
                               json all = json::array();
                               for (auto &ps : algorithms::findAllGeodesicsFromVertex(g, s))
                                   all.push_back(pathsJ(ps));
                               out.push_back(all);
                               out.push_back(json(std::vector<long long>()));
                               auto one = algorithms::findGeodesics(g, s, (VertexIndex)(g.getSize() - 1));
                               out.push_back(json(std::vector<long long>(one.begin(), one.end())));
                               out.push_back(pathsJ(algorithms::findAllGeodesics(g, s, (VertexIndex)(g.getSize() - 1))));
                           }
                           return out.dump();
                       }});
        if constexpr (I::directed) {
            ops.push_back({"reverse", [&](int) { return Obj<G>(g.getReversedGraph()).enc().dump(); }});
            ops.push_back({"to_undirected", [&](int) {
                               LabeledUndirectedGraph<L> u(g);
                               return Obj<LabeledUndirectedGraph<L>>(u).enc().dump();
                           }});
        } else
            ops.push_back({"to_directed", [&](int) {
                               return Obj<LabeledDirectedGraph<L>>(g.getDirectedGraph()).enc().dump();
                           }});
        // file writers, each thread to its own file
        if constexpr (std::is_same<L, NoLabel>::value || std::is_same<L, int>::value) {
            ops.push_back({"write_files", [&, cls](int tid) {
                               std::string t = g_tmp + "/" + cls + "-" + std::to_string(tid) + ".txt";
                               std::string b = g_tmp + "/" + cls + "-" + std::to_string(tid) + ".bin";
                               io::writeTextEdgeList(g, t);
                               io::writeBinaryEdgeList(g, b);
                               std::ifstream ft(t, std::ios::binary), fb(b, std::ios::binary);
                               std::string st((std::istreambuf_iterator<char>(ft)), std::istreambuf_iterator<char>());
                               std::string sb((std::istreambuf_iterator<char>(fb)), std::istreambuf_iterator<char>());
                               return st + "|" + std::to_string(hashStr(sb)) + ":" + std::to_string(sb.size());
                           }});
        }
    }
    if constexpr (I::kind == KindTag::Weighted) {
        ops.push_back({"dijkstra", [&](int) {
                           json out = json::array();
                           for (VertexIndex s = 0; s < g.getSize(); s += 2) {
                               auto r = algorithms::findGeodesicsDijkstra(g, s);
                               json d = json::array();
                               for (double x : r.first)
                                   d.push_back(x == algorithms::BASEGRAPH_INFINITY ? -1.0 : x);
                               out.push_back({d, json(std::vector<long long>(r.second.begin(), r.second.end()))});
                           }
                           return out.dump();
                       }});
    }
    return ops;
}

struct Event {
    unsigned long stamp;
    int t;
    int op;
    bool begin;
    unsigned res;
};

template <class G> json runClass(const std::string &cls, const json &plan, std::ofstream &logf, bool writeLog) {
    const int T = plan.value("threads", 4);
    const int K = plan.value("iterations", 40);
    const unsigned seed = plan.value("seed", 1u);
    Obj<G> shared;
    buildRandom(shared.g, seed * 7919u + (unsigned)cls.size(), plan.value("vertices", 8));
    const Obj<G> &sh = shared;
    std::vector<Op> ops = opsFor<G>(sh, cls);

    // baseline + write sets
    std::vector<std::string> base(ops.size());
    json wsViol = json::array();
    for (size_t k = 0; k < ops.size(); ++k) {
        std::vector<unsigned char> before(sizeof(G)), after(sizeof(G));
        std::memcpy(before.data(), (const void *)&sh.g, sizeof(G));
        std::string st0 = sh.exact().dump() + sh.enc().dump();
        base[k] = ops[k].run(0);
        std::memcpy(after.data(), (const void *)&sh.g, sizeof(G));
        std::string st1 = sh.exact().dump() + sh.enc().dump();
        if (before != after || st0 != st1)
            wsViol.push_back(ops[k].name + " changed the object it was called on");
        if (ops[k].run(0) != base[k])
            wsViol.push_back(ops[k].name + " is not repeatable single-threaded");
    }

    std::atomic<unsigned long> clock{0};
    std::atomic<int> go{0};
    std::vector<std::vector<Event>> evs(T);
    std::vector<std::vector<std::string>> mism(T);
    auto worker = [&](int tid, bool logging) {
        std::mt19937 rng(seed * 1000003u + tid);
        while (go.load(std::memory_order_relaxed) == 0) {
        }
        for (int it = 0; it < K; ++it) {
            size_t k = rng() % ops.size();
            if (logging)
                evs[tid].push_back({clock.fetch_add(1, std::memory_order_relaxed), tid, (int)k, true, 0});
            std::string r = ops[k].run(tid + 1);
            if (logging)
                evs[tid].push_back({clock.fetch_add(1, std::memory_order_relaxed), tid, (int)k, false, hashStr(r)});
            if (r != base[k] && mism[tid].size() < 3)
                mism[tid].push_back(ops[k].name);
        }
    };
    for (int phase = 1; phase <= 2; ++phase) {
        go.store(0);
        std::vector<std::thread> th;
        for (int t = 0; t < T; ++t)
            th.emplace_back(worker, t, phase == 2);
        go.store(1, std::memory_order_relaxed);
        for (auto &x : th)
            x.join();
    }
    json mm = json::array();
    for (auto &v : mism)
        for (auto &s : v)
            mm.push_back(s);
    size_t nev = 0;
    if (writeLog) {
        json results = json::object();
        for (size_t k = 0; k < ops.size(); ++k)
            results[ops[k].name] = hashStr(base[k]);
        logf << json({{"ev", "baseline"}, {"cls", cls}, {"threads", T}, {"results", results}}).dump() << "\n";
        std::vector<Event> all;
        for (auto &v : evs)
            all.insert(all.end(), v.begin(), v.end());
        std::sort(all.begin(), all.end(), [](const Event &a, const Event &b) { return a.stamp < b.stamp; });
        for (auto &e : all) {
            json j = {{"ev", e.begin ? "begin" : "end"}, {"t", e.t + 1}, {"op", ops[e.op].name}};
            if (!e.begin)
                j["res"] = e.res;
            logf << j.dump() << "\n";
        }
        nev = all.size();
    }
    json opn = json::array();
    for (auto &o : ops)
        opn.push_back(o.name);
    return {{"class", cls}, {"ops", opn}, {"threads", T}, {"iterations_per_thread_per_phase", K},
            {"result_mismatches", mm}, {"write_set_violations", wsViol}, {"events", nev}};
}

int main(int argc, char **argv) {
    if (argc < 2)
        return 2;
    json plan;
    {
        std::ifstream f(argv[1]);
        if (!f)
            return 2;
        f >> plan;
    }
    g_tmp = plan.at("tmp").get<std::string>();
    const std::string logDir = plan.at("log_dir").get<std::string>();
    json out = json::array();
    auto run = [&](auto tag, const std::string &cls) {
        using G = typename decltype(tag)::type;
        std::ofstream logf(logDir + "/" + cls + ".ndjson");
        out.push_back(runClass<G>(cls, plan, logf, true));
    };
    struct TagBase {};
#define RUN(TYPE, NAME)                                                                                                \
    {                                                                                                                  \
        struct Tg {                                                                                                    \
            using type = TYPE;                                                                                         \
        };                                                                                                             \
        run(Tg{}, NAME);                                                                                               \
    }
    RUN(LabeledDirectedGraph<NoLabel>, "DirectedGraph")
    RUN(LabeledUndirectedGraph<NoLabel>, "UndirectedGraph")
    RUN(LabeledDirectedGraph<int>, "LabeledDirectedGraph_int")
    RUN(LabeledUndirectedGraph<std::string>, "LabeledUndirectedGraph_string")
    RUN(DirectedMultigraph, "DirectedMultigraph")
    RUN(UndirectedMultigraph, "UndirectedMultigraph")
    RUN(DirectedWeightedGraph, "DirectedWeightedGraph")
    RUN(UndirectedWeightedGraph, "UndirectedWeightedGraph")
    size_t bad = 0;
    for (auto &c : out)
        bad += c["result_mismatches"].size() + c["write_set_violations"].size();
    std::cout << "SUMMARY " << json({{"mode", "conc"}, {"classes", out}, {"problems", bad}}).dump() << std::endl;
    return bad ? 1 : 0;
}
