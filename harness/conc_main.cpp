// Concurrent read-only use of one graph object (C18).
//   ch <plan.json>
// For each graph class: a shared object is built, every const entry point is run once
// sequentially (baseline result + check that it leaves the object's bytes and containers
// unchanged: empty write set), then reader threads run the entry points concurrently
//   phase 1: without any logging or shared atomics (nothing that could order the threads:
//            this is the phase ThreadSanitizer judges),
//   phase 2: logging Begin/End events stamped by a relaxed atomic counter; the merged log
//            is validated by TLC against ReadersTrace.tla.
// Every result obtained by a thread is compared with the sequential baseline.
// plan.large: the shared object is a LARGE sparse graph (plan.vertices > 1024 vertices, a hub with
// more than 64 neighbours), the entry points return digests, and the readers run FIRST - in a
// process in which no entry point has been called yet - the single-threaded baseline afterwards:
// state that a first call initialises lazily, or that only exists beyond a size / degree
// threshold, is then touched for the first time by concurrent threads.
#include "objects.hpp"

#include "BaseGraph/algorithms/paths.hpp"
#include "BaseGraph/algorithms/topology.hpp"
#include "BaseGraph/fileio.hpp"

#include <atomic>
#include <cstring>
#include <fstream>
#include <functional>
#include <iostream>
#include <random>
#include <thread>
#include <unordered_set>

using namespace verif;

static std::string g_tmp;
static int g_threads = 4;
// distinct files may share directory and stem: thread t writes <cls>-<t>.txt and <cls>-<t+1>.bin, so
// that <cls>-<t>.txt and <cls>-<t>.bin are written by two different threads at the same time
static int binStem(int tid) { return tid == 0 ? 0 : (tid % g_threads) + 1; }

struct Op {
    std::string name;
    std::function<std::string(int tid)> run; // result as a string
};

static unsigned hashStr(const std::string &s) { return (unsigned)(std::hash<std::string>()(s) % 2000000011u); }

template <class C> static json pathsJ(const C &paths) {
    json a = json::array();
    for (auto &p : paths)
        a.push_back(json(std::vector<long long>(p.begin(), p.end())));
    return a;
}

template <class G> void addRandomEdges(G &g, std::mt19937 &rng, size_t n, unsigned percent);

// The shared object is the result of a HISTORY (insertions, removals of every kind, relabelling,
// a resize, more insertions), not only of insertions: lazily maintained state would be stale.
template <class G> void buildRandom(G &g, unsigned seed, size_t n) {
    using I = GInfo<G>;
    std::mt19937 rng(seed);
    g.resize(n);
    addRandomEdges(g, rng, n, 30);
    std::vector<Edge> es;
    for (auto e : g.edges())
        es.push_back(e);
    for (size_t k = 0; k < es.size(); k += 4)
        g.removeEdge(es[k].first, es[k].second);
    for (size_t k = 1; k < es.size(); k += 5) {
        if (!g.hasEdge(es[k].first, es[k].second))
            continue;
        if constexpr (I::kind == KindTag::Labeled) {
            if constexpr (!std::is_same<typename I::Label, NoLabel>::value)
                g.setEdgeLabel(es[k].first, es[k].second, Lab<G>::enc((int)(rng() % 3)));
        } else if constexpr (I::kind == KindTag::Multi)
            g.setEdgeMultiplicity(es[k].first, es[k].second, 1 + rng() % 4);
        else
            g.setEdgeWeight(es[k].first, es[k].second, (double)(rng() % 5));
    }
    g.removeVertexFromEdgeList((VertexIndex)(n / 2));
    g.resize(n + 2);
    addRandomEdges(g, rng, n + 2, 8);
    g.removeEdge(0, 0);
}

template <class G> void addRandomEdges(G &g, std::mt19937 &rng, size_t n, unsigned percent) {
    using I = GInfo<G>;
    for (VertexIndex i = 0; i < n; ++i)
        for (VertexIndex j = 0; j < n; ++j) {
            if (!I::directed && i > j)
                continue;
            if (rng() % 100 < percent) {
                if constexpr (I::kind == KindTag::Labeled)
                    g.addEdge(i, j, Lab<G>::enc((int)(rng() % 3)));
                else if constexpr (I::kind == KindTag::Multi)
                    g.addMultiedge(i, j, 1 + rng() % 3);
                else
                    g.addEdge(i, j, (double)(rng() % 4));
            }
        }
}

// the const entry points of class G on the shared object `sh`
template <class G> std::vector<Op> opsFor(const Obj<G> &sh, const std::string &cls) {
    using I = GInfo<G>;
    const G &g = sh.g;
    std::vector<Op> ops;
    ops.push_back({"observers", [&](int) { return sh.project().dump(); }});
    ops.push_back({"state", [&](int) { return sh.enc().dump() + sh.exact().dump(); }});
    ops.push_back({"copy_and_equality", [&](int) {
                       auto c = sh.clone(); // copy construction from the shared object
                       bool e1 = sh.equals(*c), e2 = c->equals(sh), ne = sh.differs(*c);
                       return c->enc().dump() + (e1 ? "1" : "0") + (e2 ? "1" : "0") + (ne ? "1" : "0");
                   }});
    ops.push_back({"stream_output", [&](int) { return sh.text(); }});
    if constexpr (I::kind == KindTag::Labeled) {
        using L = typename I::Label;
        ops.push_back({"subgraph", [&](int) {
                           std::unordered_set<VertexIndex> S;
                           for (VertexIndex v = 0; v < g.getSize(); v += 2)
                               S.insert(v);
                           auto sub = algorithms::getSubgraph(g, S);
                           auto pr = algorithms::getSubgraphWithRemap(g, S);
                           return Obj<G>(sub).enc().dump() + std::to_string(pr.first.getEdgeNumber()) + "/" +
                                  std::to_string(pr.second.size());
                       }});
        ops.push_back({"bfs_searches", [&](int) {
                           json out = json::array();
                           for (VertexIndex s = 0; s < g.getSize(); s += 3) {
                               auto p = algorithms::findVertexPredecessors(g, s);
                               auto ap = algorithms::findAllVertexPredecessors(g, s);
                               json apj = json::array();
                               for (auto &l : ap.second)
                                   apj.push_back(json(std::vector<long long>(l.begin(), l.end())));
                               out.push_back({json(std::vector<long long>(p.first.begin(), p.first.end())),
                                              json(std::vector<long long>(p.second.begin(), p.second.end())), apj,
                                              pathsJ(algorithms::findGeodesicsFromVertex(g, s))});
                               json all = json::array();
                               for (auto &ps : algorithms::findAllGeodesicsFromVertex(g, s))
                                   all.push_back(pathsJ(ps));
                               out.push_back(all);
                               out.push_back(json(std::vector<long long>()));
                               auto one = algorithms::findGeodesics(g, s, (VertexIndex)(g.getSize() - 1));
                               out.push_back(json(std::vector<long long>(one.begin(), one.end())));
                               out.push_back(pathsJ(algorithms::findAllGeodesics(g, s, (VertexIndex)(g.getSize() - 1))));
                           }
                           return out.dump();
                       }});
        if constexpr (I::directed) {
            ops.push_back({"reverse", [&](int) { return Obj<G>(g.getReversedGraph()).enc().dump(); }});
            ops.push_back({"to_undirected", [&](int) {
                               LabeledUndirectedGraph<L> u(g);
                               return Obj<LabeledUndirectedGraph<L>>(u).enc().dump();
                           }});
        } else
            ops.push_back({"to_directed", [&](int) {
                               return Obj<LabeledDirectedGraph<L>>(g.getDirectedGraph()).enc().dump();
                           }});
        // file writers, each thread to its own file
        if constexpr (std::is_same<L, NoLabel>::value || std::is_same<L, int>::value) {
            ops.push_back({"write_files", [&, cls](int tid) {
                               std::string t = g_tmp + "/" + cls + "-" + std::to_string(tid) + ".txt";
                               std::string b = g_tmp + "/" + cls + "-" + std::to_string(binStem(tid)) + ".bin";
                               io::writeTextEdgeList(g, t);
                               io::writeBinaryEdgeList(g, b);
                               std::ifstream ft(t, std::ios::binary), fb(b, std::ios::binary);
                               std::string st((std::istreambuf_iterator<char>(ft)), std::istreambuf_iterator<char>());
                               std::string sb((std::istreambuf_iterator<char>(fb)), std::istreambuf_iterator<char>());
                               return st + "|" + std::to_string(hashStr(sb)) + ":" + std::to_string(sb.size());
                           }});
        }
    }
    if constexpr (I::kind == KindTag::Weighted) {
        ops.push_back({"dijkstra", [&](int) {
                           json out = json::array();
                           for (VertexIndex s = 0; s < g.getSize(); s += 2) {
                               auto r = algorithms::findGeodesicsDijkstra(g, s);
                               json d = json::array();
                               for (double x : r.first)
                                   d.push_back(x == algorithms::BASEGRAPH_INFINITY ? -1.0 : x);
                               out.push_back({d, json(std::vector<long long>(r.second.begin(), r.second.end()))});
                           }
                           return out.dump();
                       }});
    }
    return ops;
}

template <class G> struct LoaderOf;
template <class L> struct LoaderOf<LabeledDirectedGraph<L>> { template <class... A> using T = LabeledDirectedGraph<A...>; };
template <class L> struct LoaderOf<LabeledUndirectedGraph<L>> { template <class... A> using T = LabeledUndirectedGraph<A...>; };

// ---- large mode
struct Digest {
    unsigned long long h = 1469598103934665603ull;
    void add(unsigned long long v) { h = (h ^ v) * 1099511628211ull; }
    void addD(double d) { unsigned long long v; std::memcpy(&v, &d, sizeof v); add(v); }
    std::string str() const { return std::to_string(h); }
};

template <class G> void addOne(G &g, VertexIndex i, VertexIndex j, unsigned r) {
    using I = GInfo<G>;
    if constexpr (I::kind == KindTag::Labeled)
        g.addEdge(i, j, Lab<G>::enc((int)(r % 3)));
    else if constexpr (I::kind == KindTag::Multi)
        g.addMultiedge(i, j, 1 + r % 3);
    else
        g.addEdge(i, j, (double)(1 + r % 4));
}

template <class G> void buildLarge(G &g, unsigned seed, size_t n) {
    std::mt19937 rng(seed);
    g.resize(n);
    for (VertexIndex v = 0; v + 1 < n; ++v)                 // a path through every vertex
        addOne(g, v, v + 1, rng());
    for (VertexIndex v = 2; v < n && v < 2 + 3 * 70; v += 3) // hub: 70 neighbours of vertex 0
        addOne(g, 0, v, rng());
    for (size_t k = 0; k < 2 * n; ++k)                       // random chords, loops included
        addOne(g, (VertexIndex)(rng() % n), (VertexIndex)(rng() % n), rng());
    for (VertexIndex v = 5; v < n; v += 97)                  // and a history: removals, a resize
        g.removeEdge(v, v + 1 < n ? v + 1 : v);
    g.removeVertexFromEdgeList((VertexIndex)(n / 2));
    g.resize(n + 3);
    addOne(g, (VertexIndex)(n + 2), 0, rng());
    addOne(g, 1, (VertexIndex)(n + 1), rng());
}

template <class G> std::vector<Op> opsLarge(const Obj<G> &sh, const std::string &cls) {
    using I = GInfo<G>;
    const G &g = sh.g;
    std::vector<Op> ops;
    ops.push_back({"observers", [&](int) {
                       Digest d;
                       d.add(g.getSize());
                       d.add(g.getEdgeNumber());
                       for (VertexIndex v : g) {
                           for (VertexIndex w : g.getOutNeighbours(v))
                               d.add(w);
                           d.add(g.hasEdge(v, (VertexIndex)((v * 7 + 3) % g.getSize())));
                       }
                       for (auto e : g.edges())
                           d.add(e.first * 1000003ull + e.second);
                       if constexpr (I::directed) {
                           for (auto x : g.getInDegrees()) d.add(x);
                           for (auto x : g.getOutDegrees()) d.add(x);
                           d.add(g.getInDegree(0));
                       } else {
                           for (auto x : g.getDegrees()) d.add(x);
                           d.add(g.getDegree(0));
                       }
                       return d.str();
                   }});
    ops.push_back({"copy_and_equality", [&](int) {
                       auto c = sh.clone();
                       bool e1 = sh.equals(*c), e2 = c->equals(sh), ne = sh.differs(*c);
                       return std::string(e1 ? "1" : "0") + (e2 ? "1" : "0") + (ne ? "1" : "0");
                   }});
    ops.push_back({"stream_output", [&](int) { return std::to_string(hashStr(sh.text())); }});
    if constexpr (I::kind == KindTag::Labeled) {
        using L = typename I::Label;
        ops.push_back({"subgraph", [&](int) {
                           std::unordered_set<VertexIndex> S;
                           for (VertexIndex v = 0; v < g.getSize(); v += 2)
                               S.insert(v);
                           auto sub = algorithms::getSubgraph(g, S);
                           S.clear();
                           for (VertexIndex v = 0; v < 40; ++v)
                               S.insert(v * 5);
                           auto pr = algorithms::getSubgraphWithRemap(g, S);
                           Digest d;
                           d.add(sub.getEdgeNumber());
                           for (auto e : sub.edges()) d.add(e.first * 1000003ull + e.second);
                           d.add(pr.first.getEdgeNumber());
                           d.add(pr.first.getSize());
                           d.add(pr.second.size());
                           return d.str();
                       }});
        ops.push_back({"bfs_searches", [&](int) {
                           Digest d;
                           for (VertexIndex s : {(VertexIndex)0, (VertexIndex)(g.getSize() - 1)}) {
                               auto p = algorithms::findVertexPredecessors(g, s);
                               for (auto x : p.first) d.add(x);
                               for (auto x : p.second) d.add(x);
                               auto ap = algorithms::findAllVertexPredecessors(g, s);
                               for (auto &l : ap.second) for (auto x : l) d.add(x);
                               for (auto &path : algorithms::findGeodesicsFromVertex(g, s))
                                   d.add(path.size());
                               auto one = algorithms::findGeodesics(g, s, (VertexIndex)(g.getSize() / 3));
                               for (auto x : one) d.add(x);
                               d.add(algorithms::findAllGeodesics(g, s, (VertexIndex)(g.getSize() / 3)).size());
                           }
                           return d.str();
                       }});
        if constexpr (I::directed) {
            ops.push_back({"reverse", [&](int) {
                               auto r = g.getReversedGraph();
                               Digest d;
                               d.add(r.getEdgeNumber());
                               for (auto e : r.edges()) d.add(e.first * 1000003ull + e.second);
                               return d.str();
                           }});
            ops.push_back({"to_undirected", [&](int) {
                               LabeledUndirectedGraph<L> u(g);
                               Digest d;
                               d.add(u.getEdgeNumber());
                               for (auto e : u.edges()) d.add(e.first * 1000003ull + e.second);
                               return d.str();
                           }});
        } else
            ops.push_back({"to_directed", [&](int) {
                               auto dg = g.getDirectedGraph();
                               Digest d;
                               d.add(dg.getEdgeNumber());
                               for (auto e : dg.edges()) d.add(e.first * 1000003ull + e.second);
                               return d.str();
                           }});
        if constexpr (std::is_same<L, NoLabel>::value || std::is_same<L, int>::value) {
            ops.push_back({"write_files", [&, cls](int tid) {
                               std::string t = g_tmp + "/" + cls + "-L" + std::to_string(tid) + ".txt";
                               std::string b = g_tmp + "/" + cls + "-L" + std::to_string(binStem(tid)) + ".bin";
                               io::writeTextEdgeList(g, t);
                               io::writeBinaryEdgeList(g, b);
                               std::ifstream ft(t, std::ios::binary), fb(b, std::ios::binary);
                               std::string st((std::istreambuf_iterator<char>(ft)), std::istreambuf_iterator<char>());
                               std::string sb((std::istreambuf_iterator<char>(fb)), std::istreambuf_iterator<char>());
                               // ... and each thread loads its own files back (loaders running side by side)
                               G hb = io::loadBinaryEdgeList<LoaderOf<G>::template T, L>(b);
                               auto ht = io::loadTextEdgeList<LoaderOf<G>::template T, L>(t);
                               hb.resize(g.getSize());
                               ht.first.resize(g.getSize());
                               bool same = (hb == g) && (ht.first == g || !std::is_same<L, NoLabel>::value);
                               return std::to_string(hashStr(st)) + ":" + std::to_string(st.size()) + "|" +
                                      std::to_string(hashStr(sb)) + ":" + std::to_string(sb.size()) + (same ? "|loaded" : "|LOAD DIFFERS");
                           }});
        }
    }
    if constexpr (I::kind == KindTag::Weighted) {
        ops.push_back({"dijkstra", [&](int) {
                           Digest d;
                           for (VertexIndex s : {(VertexIndex)0, (VertexIndex)(g.getSize() - 2)}) {
                               auto r = algorithms::findGeodesicsDijkstra(g, s);
                               for (double x : r.first) d.addD(x);
                               for (auto x : r.second) d.add(x);
                           }
                           return d.str();
                       }});
    }
    return ops;
}

// readers first, baseline afterwards
template <class G> json runClassLarge(const std::string &cls, const json &plan) {
    const int T = plan.value("threads", 4);
    const int K = plan.value("iterations", 6);
    const unsigned seed = plan.value("seed", 1u);
    Obj<G> shared;
    buildLarge(shared.g, seed * 104729u + (unsigned)cls.size(), plan.value("vertices", 1300));
    const Obj<G> &sh = shared;
    std::vector<Op> ops = opsLarge<G>(sh, cls);
    // plan.first_op: the entry point ALL threads call first, at the same moment (one process per
    // entry point: whatever it initialises on first use is initialised under contention)
    size_t firstOp = 0;
    for (size_t k = 0; k < ops.size(); ++k)
        if (ops[k].name == plan.value("first_op", std::string("observers")))
            firstOp = k;
    std::atomic<int> go{0};
    std::vector<std::vector<std::pair<int, std::string>>> got(T);
    auto worker = [&](int tid) {
        while (go.load(std::memory_order_relaxed) == 0) {
        }
        // every thread starts with a different entry point and then goes through all of them
        for (int it = 0; it < K; ++it)
            for (size_t j = 0; j < ops.size(); ++j) {
                size_t k = (j + tid * 3 + it) % ops.size();
                if (it == 0 && j == 0)
                    k = firstOp;                                 // ... after one they all begin with
                got[tid].push_back({(int)k, ops[k].run(tid + 1)});
            }
    };
    {
        std::vector<std::thread> th;
        for (int t = 0; t < T; ++t)
            th.emplace_back(worker, t);
        go.store(1, std::memory_order_relaxed);
        for (auto &x : th)
            x.join();
    }
    std::vector<std::string> base(ops.size());
    json wsViol = json::array(), mm = json::array();
    for (size_t k = 0; k < ops.size(); ++k) {
        base[k] = ops[k].run(0);
        if (ops[k].run(0) != base[k])
            wsViol.push_back(ops[k].name + " is not repeatable single-threaded");
    }
    for (int t = 0; t < T; ++t)
        for (auto &kr : got[t])
            if (kr.second != base[kr.first] && mm.size() < 6)
                mm.push_back(ops[kr.first].name);
    json opn = json::array();
    for (auto &o : ops)
        opn.push_back(o.name);
    return {{"class", cls + "[large]"}, {"ops", opn}, {"threads", T}, {"iterations_per_thread_per_phase", K},
            {"vertices", sh.g.getSize()}, {"edges", sh.g.getEdgeNumber()},
            {"result_mismatches", mm}, {"write_set_violations", wsViol}, {"events", 0}};
}

struct Event {
    unsigned long stamp;
    int t;
    int op;
    bool begin;
    unsigned res;
};

template <class G> json runClass(const std::string &cls, const json &plan, std::ofstream &logf, bool writeLog) {
    const int T = plan.value("threads", 4);
    const int K = plan.value("iterations", 40);
    const unsigned seed = plan.value("seed", 1u);
    Obj<G> shared;
    buildRandom(shared.g, seed * 7919u + (unsigned)cls.size(), plan.value("vertices", 8));
    const Obj<G> &sh = shared;
    std::vector<Op> ops = opsFor<G>(sh, cls);

    // baseline + write sets
    std::vector<std::string> base(ops.size());
    json wsViol = json::array();
    for (size_t k = 0; k < ops.size(); ++k) {
        std::vector<unsigned char> before(sizeof(G)), after(sizeof(G));
        std::memcpy(before.data(), (const void *)&sh.g, sizeof(G));
        std::string st0 = sh.exact().dump() + sh.enc().dump();
        base[k] = ops[k].run(0);
        std::memcpy(after.data(), (const void *)&sh.g, sizeof(G));
        std::string st1 = sh.exact().dump() + sh.enc().dump();
        if (before != after || st0 != st1)
            wsViol.push_back(ops[k].name + " changed the object it was called on");
        if (ops[k].run(0) != base[k])
            wsViol.push_back(ops[k].name + " is not repeatable single-threaded");
    }

    std::atomic<unsigned long> clock{0};
    std::atomic<int> go{0};
    std::vector<std::vector<Event>> evs(T);
    std::vector<std::vector<std::string>> mism(T);
    auto worker = [&](int tid, bool logging) {
        std::mt19937 rng(seed * 1000003u + tid);
        while (go.load(std::memory_order_relaxed) == 0) {
        }
        for (int it = 0; it < K; ++it) {
            size_t k = rng() % ops.size();
            if (logging)
                evs[tid].push_back({clock.fetch_add(1, std::memory_order_relaxed), tid, (int)k, true, 0});
            std::string r = ops[k].run(tid + 1);
            if (logging)
                evs[tid].push_back({clock.fetch_add(1, std::memory_order_relaxed), tid, (int)k, false, hashStr(r)});
            if (r != base[k] && mism[tid].size() < 3)
                mism[tid].push_back(ops[k].name);
        }
    };
    for (int phase = 1; phase <= 2; ++phase) {
        go.store(0);
        std::vector<std::thread> th;
        for (int t = 0; t < T; ++t)
            th.emplace_back(worker, t, phase == 2);
        go.store(1, std::memory_order_relaxed);
        for (auto &x : th)
            x.join();
    }
    json mm = json::array();
    for (auto &v : mism)
        for (auto &s : v)
            mm.push_back(s);
    size_t nev = 0;
    if (writeLog) {
        json results = json::object();
        for (size_t k = 0; k < ops.size(); ++k)
            results[ops[k].name] = hashStr(base[k]);
        logf << json({{"ev", "baseline"}, {"cls", cls}, {"threads", T}, {"results", results}}).dump() << "\n";
        std::vector<Event> all;
        for (auto &v : evs)
            all.insert(all.end(), v.begin(), v.end());
        std::sort(all.begin(), all.end(), [](const Event &a, const Event &b) { return a.stamp < b.stamp; });
        for (auto &e : all) {
            json j = {{"ev", e.begin ? "begin" : "end"}, {"t", e.t + 1}, {"op", ops[e.op].name}};
            if (!e.begin)
                j["res"] = e.res;
            logf << j.dump() << "\n";
        }
        nev = all.size();
    }
    json opn = json::array();
    for (auto &o : ops)
        opn.push_back(o.name);
    return {{"class", cls}, {"ops", opn}, {"threads", T}, {"iterations_per_thread_per_phase", K},
            {"result_mismatches", mm}, {"write_set_violations", wsViol}, {"events", nev}};
}

int main(int argc, char **argv) {
    if (argc < 2)
        return 2;
    json plan;
    {
        std::ifstream f(argv[1]);
        if (!f)
            return 2;
        f >> plan;
    }
    g_tmp = plan.at("tmp").get<std::string>();
    g_threads = plan.value("threads", 4);
    const std::string logDir = plan.at("log_dir").get<std::string>();
    json out = json::array();
    auto run = [&](auto tag, const std::string &cls) {
        using G = typename decltype(tag)::type;
        if (plan.value("large", false)) {
            out.push_back(runClassLarge<G>(cls, plan));
            return;
        }
        std::ofstream logf(logDir + "/" + cls + ".ndjson");
        out.push_back(runClass<G>(cls, plan, logf, true));
    };
    struct TagBase {};
#define RUN(TYPE, NAME)                                                                                                \
    {                                                                                                                  \
        struct Tg {                                                                                                    \
            using type = TYPE;                                                                                         \
        };                                                                                                             \
        run(Tg{}, NAME);                                                                                               \
    }
    RUN(LabeledDirectedGraph<NoLabel>, "DirectedGraph")
    RUN(LabeledUndirectedGraph<NoLabel>, "UndirectedGraph")
    RUN(LabeledDirectedGraph<int>, "LabeledDirectedGraph_int")
    RUN(LabeledUndirectedGraph<std::string>, "LabeledUndirectedGraph_string")
    RUN(DirectedMultigraph, "DirectedMultigraph")
    RUN(UndirectedMultigraph, "UndirectedMultigraph")
    RUN(DirectedWeightedGraph, "DirectedWeightedGraph")
    RUN(UndirectedWeightedGraph, "UndirectedWeightedGraph")
    size_t bad = 0;
    for (auto &c : out)
        bad += c["result_mismatches"].size() + c["write_set_violations"].size();
    std::cout << "SUMMARY " << json({{"mode", "conc"}, {"classes", out}, {"problems", bad}}).dump() << std::endl;
    return bad ? 1 : 0;
}
