// Cases on LabeledDirectedGraph<L> / LabeledUndirectedGraph<L> for one label type L.
#ifndef VERIF_ALGO_LABELED_HPP
#define VERIF_ALGO_LABELED_HPP
#include "algo.hpp"
#include <sstream>

namespace verif {

template <class L> struct EdgeElem {
    using type = LabeledEdge<L>;
    static type make(VertexIndex i, VertexIndex j, int a) { return type(i, j, Codec<L>::enc(a)); }
};
template <> struct EdgeElem<NoLabel> {
    using type = Edge;
    static type make(VertexIndex i, VertexIndex j, int) { return {i, j}; }
};
template <class T, class = void> struct IsOrdered : std::false_type {};
template <class T> struct IsOrdered<T, decltype(void(std::declval<T>() < std::declval<T>()))> : std::true_type {};

template <class L> class LabeledFamily : public IAlgoFamily {
    using DG = LabeledDirectedGraph<L>;
    using UG = LabeledUndirectedGraph<L>;
    static constexpr bool nolabel = std::is_same<L, NoLabel>::value;

  public:
    std::string name() const override { return std::string("Labeled*Graph<") + Codec<L>::name + ">"; }
    bool handles(const std::string &k) const override {
        return k == "reverse" || k == "todirected" || k == "toundirected" || k == "edgelist" || k == "subgraphD" ||
               k == "subgraphU" || k == "search" || k == "reject" || k == "iter" || k == "big_conv" ||
               ((k == "iter_scale" || k == "search_deep") && nolabel);
    }

    CaseResult run(const json &c, unsigned seed) override {
        const std::string k = c.at("k");
        CaseResult r;
        for (unsigned order : {0u, seed + 1}) { // two concrete representatives of the input value
            if (k == "reverse")
                reverse(c, order, r);
            else if (k == "todirected")
                toDirected(c, order, r);
            else if (k == "toundirected")
                toUndirected(c, order, r);
            else if (k == "subgraphD")
                subgraph<DG>(c, order, r);
            else if (k == "subgraphU")
                subgraph<UG>(c, order, r);
            else if (k == "search") {
                if (c.at("dir").get<bool>())
                    search<DG, CountD<L>>(c, order, true, r);
                else
                    search<UG, CountU<L>>(c, order, false, r);
            } else if (k == "reject") {
                if (c.at("dir").get<bool>())
                    reject<DG>(c, order, r);
                else
                    reject<UG>(c, order, r);
            }
            if (!r.ok)
                return r;
        }
        if (k == "edgelist")
            edgeList(c, r);
        if (k == "big_conv")
            bigConv(c, r);
        if (k == "iter") {
            if (c.at("dir").get<bool>())
                iterate<DG>(c, r);
            else
                iterate<UG>(c, r);
        }
        if (k == "iter_scale") {
            iterateScale<DG>(c, r);
            if (r.ok)
                iterateScale<UG>(c, r);
        }
        if (k == "search_deep") {
            searchDeep<DG>(c, r);
            if (r.ok)
                searchDeep<UG>(c, r);
        }
        return r;
    }

  private:
    // C09: "copy construction and assignment produce independent equal graphs" - also by move,
    // onto a non-empty target, and onto the object itself
    template <class G> bool copiesOk(const G &g, CaseResult &r) {
        const json want = encOf(g);
        G c1(g);
        G c2(g.getSize() + 1);
        if (g.getSize() > 0)
            c2.addEdge(0, 0);
        c2 = g;
        G tmp1(g), tmp2(g);
        G c3(std::move(tmp1));
        G c4(1);
        c4 = std::move(tmp2);
        G c5(g);
        G &alias = c5;
        c5 = alias;
        const char *names[] = {"copy construction", "copy assignment onto a non-empty graph", "move construction",
                               "move assignment", "self-assignment"};
        const G *all[] = {&c1, &c2, &c3, &c4, &c5};
        for (int k = 0; k < 5; ++k)
            if (encOf(*all[k]) != want) {
                r.fail(std::string(names[k]) + " does not give an equal graph: " + diffNote(want, encOf(*all[k])));
                return false;
            }
        c1.clearEdges();
        c2.resize(c2.getSize() + 1);
        if (encOf(g) != want || encOf(c3) != want) {
            r.fail("changing a copy changed its source (copies are not independent)");
            return false;
        }
        return true;
    }
    // the same value with label entries for pairs that are NOT edges (setEdgeLabel(..., force=true),
    // documented): the constructions are defined over the edges, such entries must not matter
    template <class G> G withOrphans(const G &g) {
        G h(g);
        if constexpr (!nolabel)
            for (VertexIndex i = 0; i < h.getSize(); ++i)
                for (VertexIndex j = 0; j < h.getSize(); ++j)
                    if (!h.hasEdge(i, j))
                        h.setEdgeLabel(i, j, Codec<L>::enc(2), true);
        return h;
    }

    void reverse(const json &c, unsigned order, CaseResult &r) {
        const DG g = buildFromEnc<DG>(c.at("g"), order);
        if (!inputAsSpecified(g, c.at("g"), r))
            return;
        json before = Obj<DG>(g).exact();
        DG rev = g.getReversedGraph();
        if (encOf(rev) != c.at("out"))
            return r.fail("getReversedGraph: " + diffNote(c.at("out"), encOf(rev)));
        if (!copiesOk(g, r) || !copiesOk(rev, r))
            return;
        if (order && !nolabel && encOf(withOrphans(g).getReversedGraph()) != c.at("out"))
            return r.fail("getReversedGraph of the same graph carrying label entries for non-edges: " +
                          diffNote(c.at("out"), encOf(withOrphans(g).getReversedGraph())));
        DG back = rev.getReversedGraph();
        if (!(back == g) || back != g || encOf(back) != encOf(g))
            return r.fail("reversing twice does not give an equal graph");
        if (Obj<DG>(g).exact() != before)
            r.fail("getReversedGraph changed its argument");
    }
    void toDirected(const json &c, unsigned order, CaseResult &r) {
        const UG u = buildFromEnc<UG>(c.at("g"), order);
        if (!inputAsSpecified(u, c.at("g"), r))
            return;
        DG d = u.getDirectedGraph();
        if (encOf(d) != c.at("out"))
            return r.fail("getDirectedGraph: " + diffNote(c.at("out"), encOf(d)));
        UG u2(d);
        if (!(u2 == u) || u2 != u || encOf(u2) != encOf(u))
            return r.fail("undirected -> directed -> undirected is not the identity");
        if (!copiesOk(u, r))
            return;
        if (order && !nolabel && encOf(withOrphans(u).getDirectedGraph()) != c.at("out"))
            r.fail("getDirectedGraph of the same graph carrying label entries for non-edges: " +
                   diffNote(c.at("out"), encOf(withOrphans(u).getDirectedGraph())));
    }
    void toUndirected(const json &c, unsigned order, CaseResult &r) {
        const DG d = buildFromEnc<DG>(c.at("g"), order);
        if (!inputAsSpecified(d, c.at("g"), r))
            return;
        UG u(d);
        if (encOf(u) != c.at("out"))
            return r.fail("LabeledUndirectedGraph(directed): " + diffNote(c.at("out"), encOf(u)));
        if (order && !nolabel) {
            UG u3(withOrphans(d));
            // (which of two joined labels survives is not specified: compare only when it cannot differ)
            if (encOf(u3).at("adj") != c.at("out").at("adj") || encOf(u3).at("en") != c.at("out").at("en"))
                r.fail("LabeledUndirectedGraph(directed) of the same graph carrying label entries for non-edges: " +
                       diffNote(c.at("out"), encOf(u3)));
        }
    }

    // C09 is relative: "a graph with 1+largest-index vertices (none for an empty container) equal to
    // the one obtained by adding those edges one at a time".  That is judged on the real class;
    // agreement with the specification's absolute result is reported as a note only.
    template <class G, class Cont> void ctorOne(const Cont &cont, const json &want, const char *what, CaseResult &r) {
        G built(cont);
        size_t n = 0;
        for (auto &e : cont) {
            if constexpr (nolabel)
                n = std::max<size_t>(n, 1 + std::max(e.first, e.second));
            else
                n = std::max<size_t>(n, 1 + std::max(std::get<0>(e), std::get<1>(e)));
        }
        G oneAtATime(n);
        for (auto &e : cont) {
            if constexpr (nolabel)
                oneAtATime.addEdge(e.first, e.second);
            else
                oneAtATime.addEdge(std::get<0>(e), std::get<1>(e), std::get<2>(e));
        }
        if (built.getSize() != n)
            return r.fail(std::string(GInfo<G>::directed ? "directed" : "undirected") + " constructor from " + what + ": " +
                          std::to_string(built.getSize()) + " vertices instead of " + std::to_string(n));
        if (!(built == oneAtATime) || built != oneAtATime || encOf(built) != encOf(oneAtATime))
            return r.fail(std::string(GInfo<G>::directed ? "directed" : "undirected") + " constructor from " + what +
                          " differs from adding the edges one at a time: " + diffNote(encOf(oneAtATime), encOf(built)));
        if (encOf(built) != want)
            r.diagnostics.push_back(std::string("constructor result differs from the specification's: ") +
                                    diffNote(want, encOf(built)).substr(0, 200));
    }
    template <class Cont> void ctorBoth(const Cont &cont, const json &c, const char *what, CaseResult &r) {
        ctorOne<DG>(cont, c.at("outD"), what, r);
        if (r.ok)
            ctorOne<UG>(cont, c.at("outU"), what, r);
    }
    void edgeList(const json &c, CaseResult &r) {
        using E = typename EdgeElem<L>::type;
        std::vector<E> v;
        for (auto &t : c.at("s"))
            v.push_back(EdgeElem<L>::make(t[0].get<unsigned>(), t[1].get<unsigned>(), t[2].get<int>()));
        ctorBoth(v, c, "std::vector", r);
        ctorBoth(std::list<E>(v.begin(), v.end()), c, "std::list", r);
        ctorBoth(std::deque<E>(v.begin(), v.end()), c, "std::deque", r);
        if constexpr (nolabel || IsOrdered<L>::value) {
            // ordered containers iterate in their own order: the result must be what the
            // same constructor gives for a std::vector holding that iteration order
            std::multiset<E> ms(v.begin(), v.end());
            std::set<E> st(v.begin(), v.end());
            std::vector<E> vms(ms.begin(), ms.end()), vst(st.begin(), st.end());
            if (!(DG(ms) == DG(vms)) || !(UG(ms) == UG(vms)) || encOf(DG(ms)) != encOf(DG(vms)))
                r.fail("constructor from std::multiset differs from the same sequence in a std::vector");
            if (!(DG(st) == DG(vst)) || !(UG(st) == UG(vst)) || encOf(UG(st)) != encOf(UG(vst)) || encOf(DG(st)) != encOf(DG(vst)))
                r.fail("constructor from std::set differs from the same sequence in a std::vector");
            // ... and with a comparator of the caller's choosing (descending iteration order)
            std::set<E, std::greater<E>> sg(v.begin(), v.end());
            std::multiset<E, std::greater<E>> msg(v.begin(), v.end());
            std::vector<E> vsg(sg.begin(), sg.end()), vmsg(msg.begin(), msg.end());
            if (encOf(UG(sg)) != encOf(UG(vsg)) || encOf(DG(sg)) != encOf(DG(vsg)) || !(UG(sg) == UG(vsg)))
                r.fail("constructor from std::set<.., std::greater> differs from the same sequence in a std::vector");
            if (encOf(UG(msg)) != encOf(UG(vmsg)) || encOf(DG(msg)) != encOf(DG(vmsg)) || encOf(UG(ms)) != encOf(UG(vms)))
                r.fail("constructor from std::multiset<.., std::greater> differs from the same sequence in a std::vector");
        }
    }

    // C09 / C10 on large random graphs: records (input, real result) for DerivedTrace.tla
    template <class G> G randomLabeled(std::mt19937 &rng, size_t n, size_t m) {
        G g(n);
        size_t tries = 0;
        while (g.getEdgeNumber() < m && tries++ < 20 * m + 100) {
            VertexIndex i = rng() % n, j = rng() % n;
            if (rng() % 4 == 0)
                i = n - 1 - rng() % std::min<size_t>(3, n);
            g.addEdge(i, j, Codec<L>::enc((int)(rng() % 3)));
        }
        return g;
    }
    void bigConv(const json &c, CaseResult &r) {
        std::mt19937 rng(c.value("seed", 1u));
        const size_t n = c.at("n").get<size_t>(), m = c.at("m").get<size_t>();
        const std::string fam = name();
        try {
            DG d = randomLabeled<DG>(rng, n, m);
            UG u = randomLabeled<UG>(rng, n, m);
            {
                DG rev = d.getReversedGraph();
                DG back = rev.getReversedGraph();
                r.records.push_back({{"k", "conv_reverse"}, {"family", fam}, {"g", encOf(d)}, {"out", encOf(rev)},
                                     {"twice_equal", (back == d) && !(back != d)}});
            }
            {
                DG dd = u.getDirectedGraph();
                UG back(dd);
                r.records.push_back({{"k", "conv_todirected"}, {"family", fam}, {"g", encOf(u)}, {"out", encOf(dd)},
                                     {"back_equal", (back == u) && !(back != u)}});
            }
            {
                UG uu(d);
                r.records.push_back({{"k", "conv_toundirected"}, {"family", fam}, {"g", encOf(d)}, {"out", encOf(uu)},
                                     {"labeled", !nolabel}});
            }
            // subsets of three densities: about half, few (|S| << n), nearly all of the vertices
            for (int dd = 0; dd < 6; ++dd) {
                const int dir = dd % 2, dens = dd / 2;
                std::unordered_set<VertexIndex> S;
                json Sj = json::array();
                for (VertexIndex v = 0; v < n; ++v)
                    if (dens == 0 ? rng() % 2 : dens == 1 ? rng() % 16 == 0 : rng() % 16 != 0) {
                        S.insert(v);
                        Sj.push_back(v);
                    }
                if (dir) {
                    auto sub = algorithms::getSubgraph(d, S);
                    r.records.push_back({{"k", "conv_subgraph"}, {"family", fam}, {"dir", true}, {"g", encOf(d)}, {"S", Sj},
                                         {"out", encOf(sub)}});
                    auto pr = algorithms::getSubgraphWithRemap(d, S);
                    json mp = json::array();
                    std::vector<std::pair<VertexIndex, VertexIndex>> mm(pr.second.begin(), pr.second.end());
                    std::sort(mm.begin(), mm.end());
                    for (auto &kv : mm)
                        mp.push_back({kv.first, kv.second});
                    r.records.push_back({{"k", "remap"}, {"dir", true}, {"g", encOf(d)}, {"S", Sj}, {"h", encOf(pr.first)},
                                         {"map", mp}, {"family", fam}});
                } else {
                    auto sub = algorithms::getSubgraph(u, S);
                    r.records.push_back({{"k", "conv_subgraph"}, {"family", fam}, {"dir", false}, {"g", encOf(u)}, {"S", Sj},
                                         {"out", encOf(sub)}});
                    auto pr = algorithms::getSubgraphWithRemap(u, S);
                    json mp = json::array();
                    std::vector<std::pair<VertexIndex, VertexIndex>> mm(pr.second.begin(), pr.second.end());
                    std::sort(mm.begin(), mm.end());
                    for (auto &kv : mm)
                        mp.push_back({kv.first, kv.second});
                    r.records.push_back({{"k", "remap"}, {"dir", false}, {"g", encOf(u)}, {"S", Sj}, {"h", encOf(pr.first)},
                                         {"map", mp}, {"family", fam}});
                }
            }
            {
                // edge-list constructors from a long list with repeats and both orientations
                using E = typename EdgeElem<L>::type;
                std::vector<E> v;
                json seq = json::array();
                size_t len = c.value("list", 120);
                for (size_t k = 0; k < len; ++k) {
                    VertexIndex i = rng() % n, j = rng() % n;
                    int a = (int)(rng() % 3);
                    if (k % 7 == 3 && !v.empty()) { // repeat an earlier pair, possibly flipped
                        auto &e0 = seq[rng() % seq.size()];
                        i = e0[1].get<VertexIndex>();
                        j = e0[0].get<VertexIndex>();
                    }
                    v.push_back(EdgeElem<L>::make(i, j, a));
                    seq.push_back({i, j, nolabel ? 0 : a});
                }
                DG cd(v);
                UG cu(std::list<E>(v.begin(), v.end()));
                size_t nn = 0;
                for (auto &t : seq)
                    nn = std::max<size_t>(nn, 1 + std::max(t[0].get<size_t>(), t[1].get<size_t>()));
                DG od(nn);
                UG ou(nn);
                for (auto &e : v) {
                    if constexpr (nolabel) {
                        od.addEdge(e.first, e.second);
                        ou.addEdge(e.first, e.second);
                    } else {
                        od.addEdge(std::get<0>(e), std::get<1>(e), std::get<2>(e));
                        ou.addEdge(std::get<0>(e), std::get<1>(e), std::get<2>(e));
                    }
                }
                r.records.push_back({{"k", "conv_edgelist"}, {"kind", nolabel ? "nolabel" : "labeled"}, {"family", fam},
                                     {"dir", true}, {"seq", seq}, {"out", encOf(cd)}, {"one", encOf(od)},
                                     {"equal_one", (cd == od) && !(cd != od)}});
                r.records.push_back({{"k", "conv_edgelist"}, {"kind", nolabel ? "nolabel" : "labeled"}, {"family", fam},
                                     {"dir", false}, {"seq", seq}, {"out", encOf(cu)}, {"one", encOf(ou)},
                                     {"equal_one", (cu == ou) && !(cu != ou)}});
            }
        } catch (const std::exception &e) {
            r.fail(std::string("a construction threw on a valid large graph: ") + e.what());
        }
    }

    // C08: the real edge traversal against the sequence EdgeIter.tla yields for the same shape
    // C08 "every size from 0 up": shapes with a few hundred thousand vertices (a hub whose
    // neighbours all point back to it, long runs of isolated vertices, a path) - the traversal may
    // not depend on the length of a run of skipped entries or of empty lists
    template <class G> void iterateScale(const json &c, CaseResult &r) {
        const size_t n = c.at("n").get<size_t>();
        const std::string shape = c.at("shape");
        G g(n);
        auto add = [&](VertexIndex a, VertexIndex b) { g.addEdge(a, b, true); };   // distinct pairs: no duplicate arises
        if (shape == "star")
            for (VertexIndex v = 1; v < n; ++v)
                add(0, v);
        else if (shape == "instar")
            for (VertexIndex v = 1; v < n; ++v)
                add(v, 0);
        else if (shape == "revstar")
            for (VertexIndex v = 0; v + 1 < n; ++v)
                add((VertexIndex)(n - 1), v);
        else if (shape == "path")
            for (VertexIndex v = 0; v + 1 < n; ++v)
                add(v + 1, v);
        else if (shape == "gaps") {                       // edges at both ends, isolated vertices between
            add(0, 1);
            add((VertexIndex)(n - 1), (VertexIndex)(n - 2));
            add((VertexIndex)(n / 2), (VertexIndex)(n / 2));
        }
        std::vector<std::pair<VertexIndex, VertexIndex>> flat, s1;
        for (VertexIndex v = 0; v < n; ++v)
            for (VertexIndex w : g.getOutNeighbours(v))
                if (GInfo<G>::directed || v <= w)
                    flat.push_back({v, w});
        size_t post = 0;
        try {
            for (auto e : g.edges())
                s1.push_back(e);
            auto ed = g.edges();
            for (auto it = ed.begin(); it != ed.end(); it++)
                ++post;
        } catch (const std::exception &e) {
            return r.fail(std::string("edge traversal threw: ") + e.what());
        }
        if (s1 != flat || post != flat.size() || flat.size() != g.getEdgeNumber())
            return r.fail("edges() on the " + shape + " shape with " + std::to_string(n) + " vertices yields " +
                          std::to_string(s1.size()) + " / " + std::to_string(post) + " edges, the lists hold " +
                          std::to_string(flat.size()) + ", getEdgeNumber() = " + std::to_string(g.getEdgeNumber()));
        size_t k = 0;
        for (VertexIndex v : g) {
            if (v != k)
                return r.fail("vertex iteration out of order");
            ++k;
        }
        if (k != n)
            return r.fail("vertex iteration count");
    }

    // C11 on a path 0 - 1 - ... - n-1 (the deepest graph on n vertices): every result is known in
    // closed form.  Run with a small stack, and with n around 2^16 (c.light: without the all-paths
    // enumerations, which copy quadratically).
    template <class G> void searchDeep(const json &c, CaseResult &r) {
        const size_t n = c.at("n").get<size_t>();
        const bool light = c.value("light", false);
        G g(n);
        for (VertexIndex v = 0; v + 1 < n; ++v)
            g.addEdge(v, v + 1, true);
        const VertexIndex last = (VertexIndex)(n - 1);
        auto isPath = [&](const std::list<VertexIndex> &p, VertexIndex from, VertexIndex to) {
            if (p.size() != (size_t)(to - from) + 1)
                return false;
            VertexIndex want = from;
            for (VertexIndex v : p)
                if (v != want++)
                    return false;
            return true;
        };
        try {
            auto p1 = algorithms::findVertexPredecessors(g, 0);
            auto p2 = algorithms::findAllVertexPredecessors(g, 0);
            for (VertexIndex v = 0; v < n; ++v) {
                bool ok = p1.first[v] == v && p2.first[v] == v && (v == 0 || p1.second[v] == v - 1) &&
                          (v == 0 ? p2.second[v].empty() : (p2.second[v].size() == 1 && p2.second[v].front() == v - 1));
                if (!ok)
                    return r.fail("predecessor searches on a path of " + std::to_string(n) + " vertices: vertex " + std::to_string(v));
            }
            if (!isPath(algorithms::findGeodesics(g, 0, last), 0, last))
                return r.fail("findGeodesics(0, n-1) on a path of " + std::to_string(n) + " vertices");
            if (!isPath(algorithms::findPathToVertexFromPredecessors(g, last, p1), 0, last))
                return r.fail("findPathToVertexFromPredecessors on a path of " + std::to_string(n) + " vertices");
            if (!light) {
                auto mp = algorithms::findMultiplePathsToVertexFromPredecessors(g, last, p2);
                if (mp.size() != 1 || !isPath(mp.front(), 0, last))
                    return r.fail("findMultiplePathsToVertexFromPredecessors on a path of " + std::to_string(n) + " vertices");
                auto all = algorithms::findAllGeodesics(g, 0, last);
                if (all.size() != 1 || !isPath(all.front(), 0, last))
                    return r.fail("findAllGeodesics(0, n-1) on a path of " + std::to_string(n) + " vertices");
            }
            if (c.value("fromv", false)) {
                auto fv = algorithms::findGeodesicsFromVertex(g, 0);
                auto afv = algorithms::findAllGeodesicsFromVertex(g, 0);
                if (fv.size() != n || afv.size() != n)
                    return r.fail("from-vertex searches on a path: result sizes");
                for (VertexIndex v = 0; v < n; ++v)
                    if (!isPath(fv[v], 0, v) || afv[v].size() != 1 || !isPath(afv[v].front(), 0, v))
                        return r.fail("from-vertex searches on a path of " + std::to_string(n) + " vertices: destination " + std::to_string(v));
            }
        } catch (const std::exception &e) {
            return r.fail("search on a path of " + std::to_string(n) + " vertices threw: " + e.what());
        }
    }

    template <class G> void iterate(const json &c, CaseResult &r) {
        const size_t n = c.at("n").get<size_t>();
        G g(n);
        if (GInfo<G>::directed) {
            for (VertexIndex i = 0; i < n; ++i)
                for (auto &j : c.at("lists")[i])
                    g.addEdge(i, j.get<VertexIndex>());
        } else
            for (auto &p : c.at("ins"))
                g.addEdge(p[0].get<VertexIndex>(), p[1].get<VertexIndex>());
        bool sameShape = true;
        for (VertexIndex i = 0; i < n; ++i) {
            std::vector<VertexIndex> real(g.getOutNeighbours(i).begin(), g.getOutNeighbours(i).end());
            if (real != c.at("lists")[i].get<std::vector<VertexIndex>>())
                sameShape = false;
        }
        std::vector<std::pair<VertexIndex, VertexIndex>> spec;
        for (auto &e : c.at("yielded"))
            spec.push_back({e[0].get<VertexIndex>(), e[1].get<VertexIndex>()});
        std::vector<std::pair<VertexIndex, VertexIndex>> s1, s2, s3, s4;
        try {
            for (auto e : g.edges())
                s1.push_back(e);
            auto ed = g.edges();
            for (auto it = ed.begin(); it != ed.end(); ++it)
                s2.push_back(*it);
            for (auto it = ed.begin(); it != ed.end();) {
                auto old = it++;
                s3.push_back(*old);
            }
            for (auto e : g.edges())
                s4.push_back(e);
            if ((g.edges().begin() == g.edges().end()) != s1.empty())
                return r.fail("begin()==end() is not 'no edge'");
            if ((g.edges().begin() != g.edges().end()) == s1.empty())
                return r.fail("begin()!=end() is not the negation of ==");
        } catch (const std::exception &e) {
            return r.fail(std::string("edge traversal threw: ") + e.what());
        }
        if (c.at("oor").get<bool>())
            r.diagnostics.push_back("the specification's cursor leaves the vertex range on this shape");
        if (s1 != s2 || s1 != s3 || s1 != s4)
            return r.fail("range-for, pre-increment, post-increment and repeated traversals disagree");
        // the oracle is the object's own neighbour lists: vertices in order, each list in order,
        // the entries with vertex <= neighbour for the undirected classes - exactly what
        // EdgeIter.tla yields for these lists (so on the specified shape the two coincide)
        std::vector<std::pair<VertexIndex, VertexIndex>> flat;
        for (VertexIndex v = 0; v < n; ++v)
            for (VertexIndex w : g.getOutNeighbours(v))
                if (GInfo<G>::directed || v <= w)
                    flat.push_back({v, w});
        if (s1 != flat)
            return r.fail("edges() yields " + json(s1).dump() + " on neighbour lists whose enumeration is " + json(flat).dump());
        if (sameShape && flat != spec)
            r.diagnostics.push_back("the cursor specification yields " + json(spec).dump() + " on this shape, the lists give " +
                                    json(flat).dump());
        if (!sameShape)
            r.diagnostics.push_back("the shape could not be built as specified (insertion semantics differ)");
        // (beyond the listed properties) the text written by operator<<
        if (sameShape && c.contains("text")) {
            std::ostringstream os;
            os << g;
            if (os.str() != c.at("text").get<std::string>())
                r.diagnostics.push_back("operator<< wrote " + json(os.str()).dump() + ", the specification " + c.at("text").dump());
        }
        // operations defined by enumerating edges are defined on every shape
        try {
            if constexpr (GInfo<G>::directed) {
                (void)g.getInDegrees();
                (void)g.getAdjacencyMatrix();
                DG rv = g.getReversedGraph();
                if (rv.getEdgeNumber() != s1.size())
                    return r.fail("getReversedGraph lost edges");
            } else {
                DG d = g.getDirectedGraph();
                (void)d;
            }
            size_t k = 0;
            for (VertexIndex v : g) {
                if (v != k)
                    return r.fail("vertex iteration out of order");
                ++k;
            }
            if (k != n)
                return r.fail("vertex iteration count");
        } catch (const std::exception &e) {
            return r.fail(std::string("an edge-enumerating operation threw: ") + e.what());
        }
    }

    template <class G> void subgraph(const json &c, unsigned order, CaseResult &r) {
        const G g = buildFromEnc<G>(c.at("g"), order);
        if (!inputAsSpecified(g, c.at("g"), r))
            return;
        std::unordered_set<VertexIndex> S;
        std::vector<VertexIndex> sv = c.at("S").get<std::vector<VertexIndex>>();
        if (order) {
            std::mt19937 rng(order);
            std::shuffle(sv.begin(), sv.end(), rng);
        }
        for (auto v : sv)
            S.insert(v);
        G sub = algorithms::getSubgraph(g, S);
        if (encOf(sub) != c.at("out"))
            return r.fail("getSubgraph: " + diffNote(c.at("out"), encOf(sub)));
        auto pr = algorithms::getSubgraphWithRemap(g, S);
        json mp = json::array();
        std::vector<std::pair<VertexIndex, VertexIndex>> m(pr.second.begin(), pr.second.end());
        std::sort(m.begin(), m.end());
        for (auto &kv : m)
            mp.push_back({kv.first, kv.second});
        r.records.push_back({{"k", "remap"}, {"dir", GInfo<G>::directed}, {"g", c.at("g")}, {"S", c.at("S")},
                             {"h", encOf(pr.first)}, {"map", mp}, {"family", name()}});
        // the subset written as a braced list in the call, one vertex named twice: the same set
        if (!sv.empty()) {
            const VertexIndex a = sv[0], b = sv.size() > 1 ? sv[1] : sv[0], d = sv.size() > 2 ? sv[2] : sv[0];
            auto viaSet = algorithms::getSubgraphWithRemap(g, std::unordered_set<VertexIndex>{a, b, d});
            auto braced = algorithms::getSubgraphWithRemap(g, {a, b, b, d, a});
            auto sub2 = algorithms::getSubgraph(g, {a, b, b, d, a});
            auto sub1 = algorithms::getSubgraph(g, std::unordered_set<VertexIndex>{a, b, d});
            if (braced.first.getSize() != viaSet.first.getSize() || braced.second.size() != viaSet.second.size() ||
                braced.first.getEdgeNumber() != viaSet.first.getEdgeNumber() || encOf(sub1) != encOf(sub2))
                return r.fail("a subset given as a braced list naming a vertex twice gives another result than the same set: " +
                              std::to_string(braced.first.getSize()) + " vertices, " + std::to_string(braced.second.size()) +
                              " keys instead of " + std::to_string(viaSet.first.getSize()) + ", " + std::to_string(viaSet.second.size()));
        }
        // the result of a pure function does not depend on how often it has been called before:
        // c.repeat further calls in this thread, over changing subsets, each compared with the
        // first result for the same subset (8/16-bit call counters, epoch stamps, caches)
        if (c.contains("repeat")) {
            std::vector<std::unordered_set<VertexIndex>> subsets(4);
            subsets[0] = S;
            for (VertexIndex v = 0; v < g.getSize(); ++v) {
                if (!S.count(v))
                    subsets[1].insert(v);
                subsets[3].insert(v);
            }
            std::vector<json> firstRemap(4);
            auto remapDigest = [&](const std::unordered_set<VertexIndex> &T) {
                auto q = algorithms::getSubgraphWithRemap(g, T);
                // relabel back through the map so that the digest does not depend on the numbering
                std::vector<VertexIndex> inv(q.first.getSize(), 0);
                for (auto &kv : q.second)
                    if (kv.second < inv.size())
                        inv[kv.second] = kv.first;
                json es = json::array();
                for (auto e : q.first.edges()) {
                    VertexIndex a = inv[e.first], b = inv[e.second];
                    if (!GInfo<G>::directed && a > b)
                        std::swap(a, b);
                    es.push_back({a, b});
                }
                std::sort(es.begin(), es.end());
                return json{{"n", q.first.getSize()}, {"en", q.first.getEdgeNumber()}, {"keys", q.second.size()}, {"edges", es}};
            };
            const size_t times = c.at("repeat").get<size_t>();
            auto same = [](const G &x, const G &y) {
                if (x.getSize() != y.getSize() || x.getEdgeNumber() != y.getEdgeNumber())
                    return false;
                for (VertexIndex v = 0; v < x.getSize(); ++v) {
                    if (x.getOutNeighbours(v) != y.getOutNeighbours(v))
                        return false;
                    for (VertexIndex w : x.getOutNeighbours(v))
                        if (!(x.getEdgeLabel(v, w) == y.getEdgeLabel(v, w)))
                            return false;
                }
                return true;
            };
            std::vector<G> firstG;
            for (size_t it = 0; it < times; ++it) {
                // the four subsets once, then the case's own subset again and again (whatever the
                // earlier calls left behind for the other vertices stays untouched for 2^16 calls), the
                // empty subset now and then
                const size_t w = it < 4 ? it : (it % 1024 == 5 ? 2 : 0);
                G e = algorithms::getSubgraph(g, subsets[w]);
                if (it < 4)
                    firstG.push_back(e);
                else if (!same(e, firstG[w]))
                    return r.fail("getSubgraph: call number " + std::to_string(it + 2) + " on the same graph and subset returns "
                                  "another graph than the first: " + diffNote(encOf(firstG[w]), encOf(e)));
                if (it % 64 == 7 || it < 4) {
                    json q = remapDigest(subsets[w]);
                    if (firstRemap[w].is_null())
                        firstRemap[w] = q;
                    else if (q != firstRemap[w])
                        return r.fail("getSubgraphWithRemap: a later call on the same graph and subset differs from the first");
                }
            }
        }
    }

    template <class C> static json pathsJson(const C &paths) {
        json a = json::array();
        for (auto &p : paths)
            a.push_back(seqJson(p));
        return a;
    }
    template <class G, class CG> void search(const json &c, unsigned order, bool directed, CaseResult &r) {
        const G g0 = buildFromEnc<G>(c.at("g"), order);
        if (!inputAsSpecified(g0, c.at("g"), r))
            return;
        const size_t n = g0.getSize();
        size_t E = 0;
        for (VertexIndex v = 0; v < n; ++v)
            E += g0.getOutNeighbours(v).size();
        const bool withPaths = c.value("paths", true);
        for (VertexIndex s = 0; s < n; ++s) {
            if (c.contains("sources")) {
                auto src = c.at("sources").get<std::vector<VertexIndex>>();
                if (std::find(src.begin(), src.end(), s) == src.end())
                    continue;
            }
            json rec = {{"k", "bfs"}, {"dir", directed}, {"g", c.at("g")}, {"s", s}, {"family", name()},
                        {"V", n}, {"E", E}};
            try {
                CG cg(g0);
                cg.cap = 64 * (n + E) + 64;
                auto p = algorithms::findVertexPredecessors(cg, s);
                rec["scans1"] = cg.scans;
                rec["dist"] = seqJson(p.first);
                rec["pred"] = seqJson(p.second);
                cg.scans = 0;
                auto ap = algorithms::findAllVertexPredecessors(cg, s);
                rec["scans2"] = cg.scans;
                rec["dist2"] = seqJson(ap.first);
                json apj = json::array();
                for (auto &l : ap.second)
                    apj.push_back(seqJson(l));
                rec["allpred"] = apj;
                cg.cap = (size_t)-1;
                if (withPaths) {
                    json paths = json::array(), allpaths = json::array();
                    for (VertexIndex t = 0; t < n; ++t) {
                        paths.push_back(seqJson(algorithms::findGeodesics(cg, s, t)));
                        allpaths.push_back(pathsJson(algorithms::findAllGeodesics(cg, s, t)));
                    }
                    rec["paths"] = paths;
                    rec["allpaths"] = allpaths;
                    json fv = json::array(), afv = json::array();
                    for (auto &pth : algorithms::findGeodesicsFromVertex(cg, s))
                        fv.push_back(seqJson(pth));
                    for (auto &pths : algorithms::findAllGeodesicsFromVertex(cg, s))
                        afv.push_back(pathsJson(pths));
                    rec["fromv"] = fv;
                    rec["allfromv"] = afv;
                }
                rec["withpaths"] = withPaths;
                // callers name vertices with whatever integer type they have at hand (int literals,
                // long, size_t): the same vertices must give the same results
                if (withPaths && n <= 8) {
                    const int si = (int)s;
                    const long sl = (long)s;
                    const size_t sz = s;
                    bool same = algorithms::findVertexPredecessors(g0, si) == algorithms::findVertexPredecessors(g0, s) &&
                                algorithms::findAllVertexPredecessors(g0, sl) == algorithms::findAllVertexPredecessors(g0, s) &&
                                algorithms::findGeodesicsFromVertex(g0, si) == algorithms::findGeodesicsFromVertex(g0, s) &&
                                algorithms::findAllGeodesicsFromVertex(g0, sz) == algorithms::findAllGeodesicsFromVertex(g0, s);
                    for (VertexIndex t = 0; t < n && same; ++t)
                        same = algorithms::findGeodesics(g0, si, (int)t) == algorithms::findGeodesics(g0, s, t) &&
                               algorithms::findAllGeodesics(g0, si, (int)t) == algorithms::findAllGeodesics(g0, s, t) &&
                               algorithms::findGeodesics(g0, sl, (long)t) == algorithms::findGeodesics(g0, s, t) &&
                               algorithms::findAllGeodesics(g0, sz, (size_t)t) == algorithms::findAllGeodesics(g0, s, t);
                    if (!same)
                        return r.fail("a search called with int / long / size_t vertex arguments returns something else than with "
                                      "VertexIndex arguments (source " + std::to_string(s) + ")");
                }
                // the reconstruction helper with an explicit source other than the root of the
                // predecessor table: a path when that source lies on the destination's chain,
                // std::runtime_error otherwise (small graphs only: n^2 calls per record)
                json recon = json::array();
                if (n <= 6 && runOptions().value("recon", false)) {
                    cg.cap = (size_t)-1;
                    auto p1 = algorithms::findVertexPredecessors(cg, s);
                    for (VertexIndex s2 = 0; s2 < n; ++s2)
                        for (VertexIndex t = 0; t < n; ++t) {
                            json res;
                            try {
                                res = seqJson(algorithms::findPathToVertexFromPredecessors(cg, s2, t, p1));
                            } catch (const std::runtime_error &) {
                                res = json::array({-2});
                            }
                            recon.push_back({s2, t, res});
                        }
                    // the overloads that find the source themselves (findSourceVertex) and the
                    // all-paths reconstruction, for every destination
                    auto ap1 = algorithms::findAllVertexPredecessors(cg, s);
                    for (VertexIndex t = 0; t < n; ++t) {
                        json one, all;
                        try {
                            one = seqJson(algorithms::findPathToVertexFromPredecessors(cg, t, p1));
                        } catch (const std::exception &) {
                            one = json::array({-2});
                        }
                        try {
                            all = pathsJson(algorithms::findMultiplePathsToVertexFromPredecessors(cg, t, ap1));
                        } catch (const std::exception &) {
                            all = json::array({-2});
                        }
                        recon.push_back({-3, t, one, all});
                    }
                }
                rec["recon"] = recon;
            } catch (const ScanCapExceeded &) {
                return r.fail("search from " + std::to_string(s) + " exceeded " + std::to_string(64 * (n + E) + 64) +
                              " neighbourhood scans (V+E = " + std::to_string(n + E) + ")");
            } catch (const std::exception &e) {
                return r.fail(std::string("search threw on a valid input: ") + e.what());
            }
            r.records.push_back(rec);
        }
    }

    // C07: searches / subgraphs with an out-of-range vertex must throw std::out_of_range
    template <class G> void reject(const json &c, unsigned order, CaseResult &r) {
        const G g = buildFromEnc<G>(c.at("g"), order);
        const VertexIndex s = vtx(c.at("s")), t = vtx(c.at("t"));
        const std::string fn = c.at("fn");
        // length of the predecessor table handed to the reconstruction helpers (>= the graph's size)
        const size_t tab = c.contains("tab") ? std::max<size_t>(c.at("tab").get<size_t>(), g.getSize()) : g.getSize();
        json before = Obj<G>(g).exact();
        std::string out = classify([&] {
            if (fn == "findVertexPredecessors")
                algorithms::findVertexPredecessors(g, s);
            else if (fn == "findAllVertexPredecessors")
                algorithms::findAllVertexPredecessors(g, s);
            else if (fn == "findGeodesics")
                algorithms::findGeodesics(g, s, t);
            else if (fn == "findAllGeodesics")
                algorithms::findAllGeodesics(g, s, t);
            else if (fn == "findGeodesicsFromVertex")
                algorithms::findGeodesicsFromVertex(g, s);
            else if (fn == "findAllGeodesicsFromVertex")
                algorithms::findAllGeodesicsFromVertex(g, s);
            else if (fn == "findPathToVertexFromPredecessors") {
                // every vertex's predecessor is the source when it is valid, "none" otherwise,
                // so the reconstruction terminates whatever it does
                algorithms::Predecessors p{std::vector<size_t>(tab, 1),
                                           std::vector<VertexIndex>(tab,
                                               s < g.getSize() ? s : (VertexIndex)algorithms::BASEGRAPH_VERTEX_MAX)};
                algorithms::findPathToVertexFromPredecessors(g, s, t, p);
            } else if (fn == "findMultiplePathsToVertexFromPredecessors") {
                algorithms::MultiplePredecessors p{std::vector<size_t>(tab, 1),
                                                   std::vector<std::list<VertexIndex>>(tab)};
                if (s < g.getSize())
                    for (VertexIndex v = 0; v < tab; ++v)
                        if (v != s)
                            p.second[v].push_back(s);
                algorithms::findMultiplePathsToVertexFromPredecessors(g, s, t, p);
            } else if (fn == "getSubgraph") {
                std::unordered_set<VertexIndex> S{s, t};
                algorithms::getSubgraph(g, S);
            } else if (fn == "getSubgraphWithRemap") {
                std::unordered_set<VertexIndex> S{s, t};
                algorithms::getSubgraphWithRemap(g, S);
            } else
                throw std::logic_error("unknown fn " + fn);
        });
        const std::string exp = c.at("out");
        // a valid call may return or throw something else (e.g. runtime_error for an
        // inconsistent predecessor table); only the documented rejection is compared
        if (exp == "out_of_range" && out != "out_of_range")
            return r.fail(fn + "(" + c.at("s").dump() + "," + c.at("t").dump() + ") on " +
                          std::to_string(g.getSize()) + " vertices: expected std::out_of_range, got " + out);
        if (exp == "ok" && out == "out_of_range")
            return r.fail(fn + ": std::out_of_range on valid vertices");
        if (Obj<G>(g).exact() != before)
            r.fail(fn + " changed the graph");
    }
};

} // namespace verif
#endif
