// File codecs part of the conformance harness (C13, C14, C15).
//   ioh <plan.json> : cases printed by TLC from BinFormat.tla / TextFormat.tla on stdin.
// Every call of a loader runs in a forked child (alarm; address-space limit in the plain
// build) and reports through a pipe, so that a crash, a hang or an attempt to allocate
// 2^32 adjacency lists is an outcome of the case, not of the harness.
#include "common.hpp"

#include "BaseGraph/fileio.hpp"

#include <csignal>
#include <cstdio>
#include <cstring>
#include <fstream>
#include <iostream>
#include <random>
#include <sstream>
#include <sys/resource.h>
#include <sys/wait.h>
#include <unistd.h>

#if defined(__has_feature)
#if __has_feature(address_sanitizer)
#define VERIF_ASAN 1
#endif
#endif

using namespace verif;
using namespace BaseGraph;

static std::string g_tmp;
static std::string tmpFile(const char *name) { return g_tmp + "/" + name; }

// ---------------------------------------------------------------- encodings
template <class L> long long labelNum(const L &l) { return (long long)l; }
template <> long long labelNum<NoLabel>(const NoLabel &) { return NONE_L; }

// GraphOps!Enc with labels decoded by `dec`
template <class G, class Dec> json encGraph(const G &g, bool directed, bool nolabel, Dec dec) {
    const size_t n = g.getSize();
    json e = {{"n", n}, {"adj", zeroMat(n)}, {"lab", zeroMat(n)}, {"en", g.getEdgeNumber()}, {"tot", 0}};
    for (VertexIndex i = 0; i < n; ++i)
        for (VertexIndex j : g.getOutNeighbours(i))
            if (j < n)
                e["adj"][i][j] = e["adj"][i][j].get<int>() + 1;
            else
                e["inconsistent"] = "neighbour out of range";
    for (VertexIndex i = 0; i < n; ++i)
        for (VertexIndex j = 0; j < n; ++j) {
            if (nolabel || (!directed && i > j)) {
                e["lab"][i][j] = NONE_L;
                continue;
            }
            try {
                e["lab"][i][j] = dec(g.getEdgeLabel(i, j));
            } catch (const std::invalid_argument &) {
                e["lab"][i][j] = NONE_L;
            }
        }
    return e;
}

// ---------------------------------------------------------------- child runner
struct ChildResult {
    bool finished = false; // child exited normally and sent a result
    int status = 0;        // raw wait status otherwise
    json value;
};
template <class F> ChildResult inChild(F f) {
    int fd[2];
    ChildResult r;
    if (pipe(fd) != 0)
        return r;
    fflush(stdout);
    fflush(stderr);
    pid_t p = fork();
    if (p == 0) {
        close(fd[0]);
#ifndef VERIF_ASAN
        struct rlimit rl = {2ul << 30, 2ul << 30};
        setrlimit(RLIMIT_AS, &rl);
#endif
        alarm(20);
        json out;
        try {
            out = f();
        } catch (const std::exception &e) {
            out = {{"threw", "std::exception"}, {"what", e.what()}};
        } catch (...) {
            out = {{"threw", "non-std"}};
        }
        std::string s = out.dump();
        size_t off = 0;
        while (off < s.size()) {
            ssize_t w = write(fd[1], s.data() + off, s.size() - off);
            if (w <= 0)
                break;
            off += (size_t)w;
        }
        close(fd[1]);
        _exit(0);
    }
    close(fd[1]);
    std::string s;
    char buf[65536];
    ssize_t k;
    while ((k = read(fd[0], buf, sizeof buf)) > 0)
        s.append(buf, (size_t)k);
    close(fd[0]);
    int st = 0;
    waitpid(p, &st, 0);
    r.status = st;
    if (WIFEXITED(st) && WEXITSTATUS(st) == 0 && !s.empty()) {
        try {
            r.value = json::parse(s);
            r.finished = true;
        } catch (...) {
        }
    }
    return r;
}
static std::string describe(const ChildResult &r) {
    if (WIFSIGNALED(r.status))
        return "loader killed by signal " + std::to_string(WTERMSIG(r.status)) +
               (WTERMSIG(r.status) == SIGALRM ? " (timeout)" : "");
    return "loader process exited with status " + std::to_string(WEXITSTATUS(r.status));
}

static void writeBytes(const std::string &path, const json &bytes) {
    std::ofstream f(path, std::ios::binary);
    for (auto &b : bytes) {
        char c = (char)(unsigned char)b.get<int>();
        f.write(&c, 1);
    }
}
static std::string readAll(const std::string &path) {
    std::ifstream f(path, std::ios::binary);
    std::ostringstream os;
    os << f.rdbuf();
    return os.str();
}

struct Fail {
    std::string why;
};
// the case's input graph could not be built with the class's mutators as the specification
// describes it: another property's subject; the case is skipped
struct Skip {
    std::string why;
};

// ---------------------------------------------------------------- binary
template <template <class...> class G, class L> G<L> buildIns(size_t n, const json &ins, std::function<L(int)> enc, bool flip) {
    G<L> g(n);
    int k = 0;
    for (auto &e : ins) {
        VertexIndex i = e[0].get<VertexIndex>(), j = e[1].get<VertexIndex>();
        if (flip && (k++ % 2))
            std::swap(i, j); // undirected pairs named in either orientation
        g.addEdge(i, j, enc(e[2].get<int>()));
    }
    return g;
}

template <template <class...> class G, class L> void binRoundTripT(const json &c, bool directed) {
    constexpr bool nolabel = std::is_same<L, NoLabel>::value;
    const size_t n = c.at("n").get<size_t>();
    auto enc = [](int a) -> L {
        if constexpr (nolabel)
            return L();
        else
            return (L)a;
    };
    auto dec = [](const L &l) { return labelNum<L>(l); };
    for (bool flip : {false, true}) {
        if (flip && directed)
            continue;
        G<L> g = buildIns<G, L>(n, c.at("ins"), enc, flip);
        if (encGraph(g, directed, nolabel, dec) != c.at("value"))
            throw Skip{"the shape could not be built as specified"};
        std::string path = tmpFile("rt.bin");
        std::remove(path.c_str());
        if constexpr (nolabel)
            io::writeBinaryEdgeList(g, path);
        else
            io::writeBinaryEdgeList(g, path);
        std::string got = readAll(path);
        std::string want;
        for (auto &b : c.at("bytes"))
            want.push_back((char)(unsigned char)b.get<int>());
        if (got.size() != g.getEdgeNumber() * (8 + (nolabel ? 0 : sizeof(L))))
            throw Fail{"file length " + std::to_string(got.size()) + " is not edges x record size"};
        if (got != want) {
            json gb = json::array();
            for (unsigned char ch : got)
                gb.push_back((int)ch);
            throw Fail{"bytes on disk " + gb.dump() + " differ from the little-endian records " + c.at("bytes").dump()};
        }
        ChildResult r = inChild([&]() -> json {
            G<L> h = io::loadBinaryEdgeList<G, L>(path);
            json out = {{"g", encGraph(h, directed, nolabel, dec)}};
            h.resize(n);
            out["equal"] = (h == g) && !(h != g);
            return out;
        });
        if (!r.finished)
            throw Fail{describe(r)};
        if (r.value.contains("threw"))
            throw Fail{"loader threw on a file it wrote: " + r.value.dump()};
        if (r.value.at("g") != c.at("loaded"))
            throw Fail{"loaded graph " + r.value.at("g").dump() + " expected " + c.at("loaded").dump()};
        if (!r.value.at("equal").get<bool>())
            throw Fail{"loaded graph, resized to the original size, is not == the original"};
    }
}
// other trivially copyable label types of the same width: equality round trip and length
template <template <class...> class G, class L> void binRoundTripOpaque(const json &c, bool directed, std::function<L(int)> enc) {
    const size_t n = c.at("n").get<size_t>();
    G<L> g = buildIns<G, L>(n, c.at("ins"), enc, false);
    std::string path = tmpFile("rto.bin");
    std::remove(path.c_str());
    io::writeBinaryEdgeList(g, path);
    std::string got = readAll(path);
    if (got.size() != g.getEdgeNumber() * (8 + sizeof(L)))
        throw Fail{"file length is not edges x record size"};
    // the vertex fields are those of the integer-labelled file
    size_t rec = 8 + sizeof(L);
    for (size_t k = 0; k < g.getEdgeNumber(); ++k)
        for (size_t b = 0; b < 8; ++b)
            if ((int)(unsigned char)got[k * rec + b] != c.at("bytes")[k * rec + b].get<int>())
                throw Fail{"vertex bytes differ for a float/double/int label file"};
    ChildResult r = inChild([&]() -> json {
        G<L> h = io::loadBinaryEdgeList<G, L>(path);
        h.resize(n);
        return {{"equal", (h == g) && !(h != g)}};
    });
    if (!r.finished)
        throw Fail{describe(r)};
    if (r.value.contains("threw") || !r.value.at("equal").get<bool>())
        throw Fail{"round trip of a float/double/int-labelled graph is not the identity: " + r.value.dump()};
}

// the caller's own serialiser (documented argument of writer and loader): an 8-byte label type
// stored in W bytes.  The file must be the W-byte-label file of the specification and load back.
template <template <class...> class G> void binRoundTripCustom(const json &c, bool directed, size_t W) {
    using L = unsigned long long;
    const size_t n = c.at("n").get<size_t>();
    auto dec = [](const L &l) { return labelNum<L>(l); };
    G<L> g = buildIns<G, L>(n, c.at("ins"), [](int a) { return (L)a; }, false);
    if (encGraph(g, directed, false, dec) != c.at("value"))
        throw Skip{"the shape could not be built as specified"};
    std::string path = tmpFile("rtc.bin");
    std::remove(path.c_str());
    io::writeBinaryEdgeList<G, L>(g, path, [W](std::ofstream &f, L v) {
        for (size_t b = 0; b < W; ++b)
            f.put((char)((v >> (8 * b)) & 0xff));
    });
    std::string got = readAll(path), want;
    for (auto &b : c.at("bytes"))
        want.push_back((char)(unsigned char)b.get<int>());
    if (got != want)
        throw Fail{"file written through a caller's " + std::to_string(W) + "-byte serialiser differs from the " +
                   std::to_string(W) + "-byte-label records"};
    ChildResult r = inChild([&]() -> json {
        G<L> h = io::loadBinaryEdgeList<G, L>(path, [W](std::ifstream &f, L &v) -> std::ifstream & {
            v = 0;
            for (size_t b = 0; b < W; ++b) {
                char ch;
                if (!f.get(ch))
                    return f;
                v |= (L)(unsigned char)ch << (8 * b);
            }
            return f;
        });
        return {{"g", encGraph(h, directed, false, dec)}};
    });
    if (!r.finished)
        throw Fail{describe(r)};
    if (r.value.contains("threw") || r.value.at("g") != c.at("loaded"))
        throw Fail{"file written and read through a caller's " + std::to_string(W) + "-byte serialiser of an 8-byte label type: loaded " +
                   r.value.dump() + " expected " + c.at("loaded").dump()};
}

template <template <class...> class G> void binRoundTrip(const json &c, bool directed) {
    int w = c.at("w").get<int>();
    if (w == 1 || w == 2 || w == 4)
        binRoundTripCustom<G>(c, directed, (size_t)w);
    switch (w) {
    case 0:
        binRoundTripT<G, NoLabel>(c, directed);
        break;
    case 1:
        binRoundTripT<G, unsigned char>(c, directed);
        break;
    case 2:
        binRoundTripT<G, unsigned short>(c, directed);
        break;
    case 4:
        binRoundTripT<G, unsigned int>(c, directed);
        binRoundTripOpaque<G, float>(c, directed, [](int a) { return 1.5f * a - 0.25f; });
        binRoundTripOpaque<G, int>(c, directed, [](int a) { return 7 - 3 * a; });
        break;
    case 8:
        binRoundTripT<G, unsigned long long>(c, directed);
        binRoundTripOpaque<G, double>(c, directed, [](int a) { return 0.1 * a - 2.5; });
        break;
    default:
        throw Fail{"unsupported width"};
    }
}

template <template <class...> class G, class L> void binLoadT(const json &c, bool directed) {
    constexpr bool nolabel = std::is_same<L, NoLabel>::value;
    auto dec = [](const L &l) { return labelNum<L>(l); };
    std::string path = tmpFile("ld.bin");
    writeBytes(path, c.at("bytes"));
    ChildResult r = inChild([&]() -> json {
        G<L> h = io::loadBinaryEdgeList<G, L>(path);
        return {{"g", encGraph(h, directed, nolabel, dec)}};
    });
    if (!r.finished)
        throw Fail{describe(r)};
    // a truncated file may be refused with an exception; otherwise it must load to exactly
    // the complete records
    if (r.value.contains("threw")) {
        if (r.value.at("threw") != "std::exception")
            throw Fail{"loader threw something that is not a std::exception"};
        if (!c.value("cut", false))
            throw Fail{"loader threw on a well-formed file: " + r.value.dump()};
        return;
    }
    if (r.value.at("g") != c.at("loaded"))
        throw Fail{"file of " + std::to_string(c.at("bytes").size()) + " bytes loaded to " + r.value.at("g").dump() +
                   ", expected " + c.at("loaded").dump()};
    // the same file through a caller's reader (documented argument) that reports a short label the
    // way a stream extraction does: failbit, without eofbit
    if constexpr (!nolabel) {
        ChildResult r2 = inChild([&]() -> json {
            G<L> h = io::loadBinaryEdgeList<G, L>(path, [](std::ifstream &f, L &v) -> std::ifstream & {
                char buf[sizeof(L)];
                std::streamsize got = f.rdbuf()->sgetn(buf, sizeof(L));
                if (got != (std::streamsize)sizeof(L)) {
                    f.setstate(std::ios::failbit);
                    return f;
                }
                std::memcpy(&v, buf, sizeof(L));
                return f;
            });
            return {{"g", encGraph(h, directed, nolabel, dec)}};
        });
        if (!r2.finished)
            throw Fail{describe(r2) + " (caller's reader)"};
        if (r2.value.contains("threw")) {
            if (r2.value.at("threw") != "std::exception" || !c.value("cut", false))
                throw Fail{"loader with a caller's reader threw: " + r2.value.dump()};
        } else if (r2.value.at("g") != c.at("loaded"))
            throw Fail{"file of " + std::to_string(c.at("bytes").size()) + " bytes read through a caller's reader that fails with failbit "
                       "loaded to " + r2.value.at("g").dump() + ", expected " + c.at("loaded").dump()};
    }
}
template <template <class...> class G> void binLoad(const json &c, bool directed) {
    switch (c.at("w").get<int>()) {
    case 0:
        return binLoadT<G, NoLabel>(c, directed);
    case 1:
        return binLoadT<G, unsigned char>(c, directed);
    case 2:
        return binLoadT<G, unsigned short>(c, directed);
    case 4:
        return binLoadT<G, unsigned int>(c, directed);
    case 8:
        return binLoadT<G, unsigned long long>(c, directed);
    }
    throw Fail{"unsupported width"};
}

// ---------------------------------------------------------------- text
template <class L> struct TextCodec;
template <> struct TextCodec<NoLabel> {
    static NoLabel enc(int) { return {}; }
    static int dec(const NoLabel &) { return NONE_L; }
    static NoLabel parse(const std::string &) { return {}; }
};
template <> struct TextCodec<std::string> {
    static std::string enc(int a) { return Codec<std::string>::enc(a); }
    static int dec(const std::string &s) {
        int a = Codec<std::string>::dec(s);
        return a == UNKNOWN_L ? 99 : a;
    }
    static std::string parse(const std::string &s) { return s; }
};
template <> struct TextCodec<int> {
    static int enc(int a) { return Codec<int>::enc(a); }
    static int dec(const int &v) {
        int a = Codec<int>::dec(v);
        return a == UNKNOWN_L ? 99 : a;
    }
    static int parse(const std::string &s) { return std::stoi(s); }
};

// a caller's own formatter / parser: 'a' (not the default label) is the empty text, the default "0"
template <> struct TextCodec<char> {
    static char enc(int a) { return Codec<char>::enc(a); }
    static int dec(const char &v) {
        int a = Codec<char>::dec(v);
        return a == UNKNOWN_L ? 99 : a;
    }
    static std::string format(const char &c) { return c == 'a' ? std::string() : c == '\0' ? std::string("0") : std::string(1, c); }
    static char parse(const std::string &s) { return s.empty() ? 'a' : s == "0" ? '\0' : s == "Z" ? 'Z' : s == "#" ? '#' : '?'; }
};

template <template <class...> class G, class L> void writeText(const G<L> &g, const std::string &path) {
    if constexpr (std::is_same<L, NoLabel>::value)
        io::writeTextEdgeList(g, path);
    else if constexpr (std::is_same<L, char>::value)
        io::writeTextEdgeList<G, L>(g, path, TextCodec<char>::format);
    else if constexpr (std::is_same<L, int>::value)
        io::writeTextEdgeList(g, path); // the default formatter (std::to_string)
    else
        io::writeTextEdgeList<G, L>(g, path, [](const std::string &s) { return s; });
}

template <template <class...> class G, class L> json loadTextIn(const std::string &path, bool named, bool directed) {
    constexpr bool nolabel = std::is_same<L, NoLabel>::value;
    std::pair<G<L>, std::vector<std::string>> pr =
        named ? io::loadTextVertexLabeledEdgeList<G, L>(path, TextCodec<L>::parse)
              : io::loadTextEdgeList<G, L>(path, TextCodec<L>::parse);
    return {{"g", encGraph(pr.first, directed, nolabel, TextCodec<L>::dec)}, {"names", pr.second}};
}

static void compareLoaded(const json &got, const json &want, bool strict, const std::string &what) {
    if (got.contains("threw")) {
        if (got.at("threw") != "std::exception")
            throw Fail{what + ": loader threw something that is not derived from std::exception"};
        if (strict && want.at("ok").get<bool>())
            throw Fail{what + ": loader threw on a well-formed file: " + got.dump()};
        return;
    }
    if (!strict)
        return; // C15: a graph is an acceptable outcome for malformed text
    if (!want.at("ok").get<bool>())
        return; // (not generated in the strict modes)
    if (got.at("g") != want.at("g"))
        throw Fail{what + ": loaded " + got.at("g").dump() + " expected " + want.at("g").dump()};
    if (got.at("names") != want.at("names"))
        throw Fail{what + ": vertex names " + got.at("names").dump() + " expected " + want.at("names").dump()};
}

template <template <class...> class G, class L> void textRoundTripT(const json &c, bool directed) {
    constexpr bool nolabel = std::is_same<L, NoLabel>::value;
    const size_t n = c.at("n").get<size_t>();
    for (bool flip : {false, true}) {
        if (flip && directed)
            continue;
        G<L> g = buildIns<G, L>(n, c.at("ins"), [](int a) { return TextCodec<L>::enc(a); }, flip);
        if (encGraph(g, directed, nolabel, TextCodec<L>::dec) != c.at("value"))
            throw Skip{"the shape could not be built as specified"};
        std::string path = tmpFile("rt.txt");
        std::remove(path.c_str());
        writeText<G, L>(g, path);
        std::string got = readAll(path);
        if (got != c.at("text").get<std::string>())
            throw Fail{"written text " + json(got).dump() + " expected " + c.at("text").dump()};
        ChildResult r = inChild([&]() -> json {
            auto pr = io::loadTextEdgeList<G, L>(path, TextCodec<L>::parse);
            json out = {{"g", encGraph(pr.first, directed, nolabel, TextCodec<L>::dec)}, {"names", pr.second}};
            pr.first.resize(n);
            out["equal"] = (pr.first == g) && !(pr.first != g);
            return out;
        });
        if (!r.finished)
            throw Fail{describe(r)};
        compareLoaded(r.value, c.at("loaded"), true, "round trip");
        if (!r.value.contains("threw") && !r.value.at("equal").get<bool>())
            throw Fail{"graph read back and resized is not == the original"};
    }
}

template <template <class...> class G, class L> void textLoadT(const json &c, bool directed) {
    const bool named = c.at("named").get<bool>();
    const bool strict = c.at("strict").get<bool>();
    std::string text = c.at("text").get<std::string>();
    // as written, and without the final line break
    for (int variant = 0; variant < 2; ++variant) {
        std::string t = text;
        if (variant == 1) {
            if (t.empty() || t.back() != '\n')
                continue;
            t.pop_back();
            if (!t.empty() && t.back() == '\n')
                continue; // last line is blank: not the same file without its final '\n'
        }
        std::string path = tmpFile("ld.txt");
        {
            std::ofstream f(path, std::ios::binary);
            f << t;
        }
        ChildResult r = inChild([&]() -> json { return loadTextIn<G, L>(path, named, directed); });
        if (!r.finished)
            throw Fail{describe(r) + " on text " + json(t).dump()};
        compareLoaded(r.value, c.at("loaded"), strict, variant ? "without final newline" : "text");
    }
}

// one very long field (label text, vertex name, comment) in an otherwise tiny file: the cost and
// the stack depth of reading a line may not grow with its length
template <template <class...> class G> void textLongField(const json &c) {
    const size_t len = c.at("len").get<size_t>();
    const std::string big(len, 'x');
    std::string path = tmpFile("long.txt");
    {
        std::ofstream f(path, std::ios::binary);
        f << "# " << big << "\n0 1 " << big << "\n1 2 short\n";
    }
    ChildResult r = inChild([&]() -> json {
        auto pr = io::loadTextEdgeList<G, std::string>(path, [](const std::string &s) { return s; });
        return {{"n", pr.first.getSize()}, {"en", pr.first.getEdgeNumber()},
                {"len", pr.first.getEdgeLabel(0, 1).size()}, {"short", pr.first.getEdgeLabel(1, 2)}};
    });
    if (!r.finished)
        throw Fail{describe(r) + " on a file with a label of " + std::to_string(len) + " characters"};
    if (r.value.contains("threw") || r.value.at("n") != 3 || r.value.at("en") != 2 || r.value.at("len") != len ||
        r.value.at("short") != "short")
        throw Fail{"file with a label of " + std::to_string(len) + " characters loaded to " + r.value.dump()};
    {
        std::ofstream f(path, std::ios::binary);
        f << big << " b\nb " << big << "\nc b\n";
    }
    ChildResult r2 = inChild([&]() -> json {
        auto pr = io::loadTextVertexLabeledEdgeList<G, NoLabel>(path, [](const std::string &) { return NoLabel(); });
        return {{"n", pr.first.getSize()}, {"en", pr.first.getEdgeNumber()}, {"names", pr.second.size()},
                {"len", pr.second.empty() ? 0 : pr.second[0].size()}};
    });
    if (!r2.finished)
        throw Fail{describe(r2) + " on a file with a vertex name of " + std::to_string(len) + " characters"};
    if (r2.value.contains("threw") || r2.value.at("n") != 3 || r2.value.at("names") != 3 || r2.value.at("len") != len)
        throw Fail{"file with a vertex name of " + std::to_string(len) + " characters loaded to " + r2.value.dump()};
}

template <template <class...> class G> void textCase(const json &c, bool directed, bool roundtrip) {
    const std::string codec = c.at("codec");
    if (codec == "none")
        roundtrip ? textRoundTripT<G, NoLabel>(c, directed) : textLoadT<G, NoLabel>(c, directed);
    else if (codec == "string")
        roundtrip ? textRoundTripT<G, std::string>(c, directed) : textLoadT<G, std::string>(c, directed);
    else if (codec == "int")
        roundtrip ? textRoundTripT<G, int>(c, directed) : textLoadT<G, int>(c, directed);
    else if (codec == "char")
        roundtrip ? textRoundTripT<G, char>(c, directed) : textLoadT<G, char>(c, directed);
    else
        throw Fail{"unknown codec"};
}

// ---------------------------------------------------------------- large files (records for TLC)
static std::ofstream g_records;

template <class G, class Dec> json edgeListOf(const G &g, Dec dec, bool nolabel) {
    json a = json::array();
    for (auto e : g.edges())
        a.push_back({e.first, e.second, nolabel ? 0 : dec(g.getEdgeLabel(e.first, e.second))});
    return a;
}

template <template <class...> class G, class L, class Enc, class Dec>
G<L> randomGraph(const json &c, Enc enc, Dec, const std::vector<int> &labels, bool directed) {
    const size_t n = c.at("n").get<size_t>(), m = c.at("m").get<size_t>();
    std::mt19937 rng(c.value("seed", 1u));
    G<L> g(n);
    size_t tries = 0;
    while (g.getEdgeNumber() < m && tries++ < 20 * m + 100) {
        VertexIndex i = rng() % n, j = rng() % n;
        if (c.value("high", false) && rng() % 3 == 0)
            i = n - 1 - (rng() % std::min<size_t>(n, 3)); // favour the highest indices
        (void)directed;
        g.addEdge(i, j, enc(labels[rng() % labels.size()]));
    }
    return g;
}

template <template <class...> class G, class L> void bigBinT(const json &c, bool directed, const std::vector<int> &labels) {
    constexpr bool nolabel = std::is_same<L, NoLabel>::value;
    auto enc = [](int a) -> L {
        if constexpr (nolabel)
            return L();
        else
            return (L)a;
    };
    auto dec = [](const L &l) { return labelNum<L>(l); };
    G<L> g = randomGraph<G, L>(c, enc, dec, labels, directed);
    std::string path = tmpFile("big.bin");
    std::remove(path.c_str());
    io::writeBinaryEdgeList(g, path);
    std::string got = readAll(path);
    json bytes = json::array();
    for (unsigned char ch : got)
        bytes.push_back((int)ch);
    const size_t n = g.getSize();
    ChildResult r = inChild([&]() -> json {
        G<L> h = io::loadBinaryEdgeList<G, L>(path);
        json out = {{"loaded_n", h.getSize()}, {"loaded_en", h.getEdgeNumber()}, {"loaded_edges", edgeListOf(h, dec, nolabel)}};
        h.resize(n);
        out["equal_after_resize"] = (h == g) && !(h != g);
        return out;
    });
    if (!r.finished)
        throw Fail{describe(r)};
    if (r.value.contains("threw"))
        throw Fail{"loader threw on a file the writer produced: " + r.value.dump()};
    json rec = r.value;
    rec["k"] = "bin_big";
    rec["dir"] = directed;
    rec["w"] = c.at("w");
    rec["n"] = n;
    rec["edges"] = edgeListOf(g, dec, nolabel);
    rec["bytes"] = bytes;
    g_records << rec.dump() << "\n";
}
template <template <class...> class G> void bigBin(const json &c, bool directed) {
    switch (c.at("w").get<int>()) {
    case 0:
        return bigBinT<G, NoLabel>(c, directed, {0});
    case 1:
        return bigBinT<G, unsigned char>(c, directed, {0, 7, 255});
    case 2:
        return bigBinT<G, unsigned short>(c, directed, {0, 258, 65535});
    case 4:
        return bigBinT<G, unsigned int>(c, directed, {1, 16909060, 70000, 255});
    case 8:
        return bigBinT<G, unsigned long long>(c, directed, {2, 16909060, 65536});
    }
    throw Fail{"unsupported width"};
}

static json splitLines(const std::string &t) {
    json a = json::array();
    size_t st = 0;
    while (st < t.size()) {
        size_t e = t.find('\n', st);
        if (e == std::string::npos)
            e = t.size();
        a.push_back(t.substr(st, e - st));
        st = e + 1;
    }
    return a;
}
template <template <class...> class G, class L> void bigTextT(const json &c, bool directed) {
    constexpr bool nolabel = std::is_same<L, NoLabel>::value;
    auto dec = [](const L &l) { return TextCodec<L>::dec(l); };
    std::string path = tmpFile("big.txt");
    std::remove(path.c_str());
    json rec;
    size_t n = 0;
    const bool written = !c.contains("lines");
    G<L> g(0);
    if (written) {
        g = randomGraph<G, L>(c, [](int a) { return TextCodec<L>::enc(a); }, dec, {0, 1, 2, 3}, directed);
        n = g.getSize();
        writeText<G, L>(g, path);
        rec["edges"] = edgeListOf(g, dec, nolabel);
    } else {
        std::ofstream f(path, std::ios::binary);
        for (auto &ln : c.at("lines"))
            f << ln.get<std::string>() << "\n";
        rec["edges"] = json::array();
    }
    rec["lines"] = splitLines(readAll(path));
    ChildResult r = inChild([&]() -> json {
        auto pr = io::loadTextEdgeList<G, L>(path, TextCodec<L>::parse);
        json out = {{"loaded_n", pr.first.getSize()}, {"loaded_en", pr.first.getEdgeNumber()},
                    {"loaded_edges", edgeListOf(pr.first, dec, nolabel)}};
        if (written) {
            pr.first.resize(n);
            out["equal_after_resize"] = (pr.first == g) && !(pr.first != g);
        } else
            out["equal_after_resize"] = true;
        return out;
    });
    if (!r.finished)
        throw Fail{describe(r)};
    if (r.value.contains("threw"))
        throw Fail{"loader threw on a well-formed file: " + r.value.dump()};
    for (auto it = r.value.begin(); it != r.value.end(); ++it)
        rec[it.key()] = it.value();
    rec["k"] = "text_big";
    rec["dir"] = directed;
    rec["codec"] = c.at("codec");
    rec["written"] = written;
    g_records << rec.dump() << "\n";
}
template <template <class...> class G> void bigText(const json &c, bool directed) {
    const std::string codec = c.at("codec");
    if (codec == "none")
        return bigTextT<G, NoLabel>(c, directed);
    if (codec == "string")
        return bigTextT<G, std::string>(c, directed);
    if (codec == "int")
        return bigTextT<G, int>(c, directed);
    throw Fail{"unknown codec"};
}

// every loader and writer on a path that cannot be opened: std::runtime_error
static void unopenable() {
    const std::string bad = g_tmp + "/no/such/dir/file";
    auto expectRuntime = [&](const char *what, std::function<void()> f) {
        try {
            f();
        } catch (const std::runtime_error &) {
            return;
        } catch (const std::exception &e) {
            throw Fail{std::string(what) + " threw " + e.what() + " instead of std::runtime_error"};
        }
        throw Fail{std::string(what) + " did not throw on a file that cannot be opened"};
    };
    LabeledDirectedGraph<int> dl(2);
    LabeledUndirectedGraph<NoLabel> un(2);
    expectRuntime("writeTextEdgeList", [&] { io::writeTextEdgeList(dl, bad); });
    expectRuntime("writeTextEdgeList (unlabelled)", [&] { io::writeTextEdgeList(un, bad); });
    expectRuntime("writeBinaryEdgeList", [&] { io::writeBinaryEdgeList(dl, bad); });
    expectRuntime("writeBinaryEdgeList (unlabelled)", [&] { io::writeBinaryEdgeList(un, bad); });
    expectRuntime("loadTextEdgeList", [&] { io::loadTextEdgeList<LabeledDirectedGraph, int>(bad); });
    expectRuntime("loadTextVertexLabeledEdgeList", [&] { io::loadTextVertexLabeledEdgeList<LabeledUndirectedGraph, NoLabel>(bad); });
    expectRuntime("loadBinaryEdgeList", [&] { io::loadBinaryEdgeList<LabeledDirectedGraph, int>(bad); });
    expectRuntime("loadBinaryEdgeList (unlabelled)", [&] { io::loadBinaryEdgeList<LabeledUndirectedGraph, NoLabel>(bad); });
}

static bool parseLine(const std::string &line, json &out) {
    if (line.size() < 2)
        return false;
    try {
        if (line[0] == '"' && line[1] == '{') {
            out = json::parse(json::parse(line).get<std::string>());
            return true;
        }
        if (line[0] == '{') {
            out = json::parse(line);
            return true;
        }
    } catch (const std::exception &) {
    }
    return false;
}

int main(int argc, char **argv) {
    if (argc < 2)
        return 2;
    json plan;
    {
        std::ifstream f(argv[1]);
        if (!f)
            return 2;
        f >> plan;
    }
    g_tmp = plan.at("tmp").get<std::string>();
    if (plan.contains("records"))
        g_records.open(plan.at("records").get<std::string>());
    const std::string replayDir = plan.value("replay_dir", std::string("."));
    const std::string tag = plan.value("tag", std::string("io"));
    const size_t maxFail = plan.value("max_fail", 3);
    size_t cases = 0, failures = 0, cutInside = 0, cutAtBoundary = 0, malformed = 0, skipped = 0;
    std::map<std::string, size_t> kinds;
    json replays = json::array(), notes = json::array(), samples = json::array();
    std::string line;
    json c;
    const size_t stopAfter = plan.value("stop_after_failures", 12);
    while (std::getline(std::cin, line)) {
        if (failures >= stopAfter)
            continue; // enough evidence: drain the input without running further cases
        if (!parseLine(line, c) || !c.contains("k"))
            continue;
        ++cases;
        const std::string k = c.at("k");
        ++kinds[k];
        if (samples.size() < 3 && cases % 101 == 1)
            samples.push_back(c);
        if (k == "bin_load" && c.value("cut", false)) {
            if (c.at("bytes").size() % (8 + c.at("w").get<size_t>()))
                ++cutInside;
            else
                ++cutAtBoundary;
        }
        if (k == "text_load" && !c.at("strict").get<bool>())
            ++malformed;
        try {
            const bool dir = c.value("dir", true);
            if (k == "bin_roundtrip")
                dir ? binRoundTrip<LabeledDirectedGraph>(c, true) : binRoundTrip<LabeledUndirectedGraph>(c, false);
            else if (k == "bin_load")
                dir ? binLoad<LabeledDirectedGraph>(c, true) : binLoad<LabeledUndirectedGraph>(c, false);
            else if (k == "text_roundtrip")
                dir ? textCase<LabeledDirectedGraph>(c, true, true) : textCase<LabeledUndirectedGraph>(c, false, true);
            else if (k == "text_load")
                dir ? textCase<LabeledDirectedGraph>(c, true, false) : textCase<LabeledUndirectedGraph>(c, false, false);
            else if (k == "unopenable")
                unopenable();
            else if (k == "text_longfield")
                dir ? textLongField<LabeledDirectedGraph>(c) : textLongField<LabeledUndirectedGraph>(c);
            else if (k == "big_bin")
                dir ? bigBin<LabeledDirectedGraph>(c, true) : bigBin<LabeledUndirectedGraph>(c, false);
            else if (k == "big_text")
                dir ? bigText<LabeledDirectedGraph>(c, true) : bigText<LabeledUndirectedGraph>(c, false);
        } catch (const Skip &) {
            ++skipped;
        } catch (const Fail &f) {
            ++failures;
            if (replays.size() < maxFail) {
                std::string path = replayDir + "/" + tag + "-" + std::to_string(replays.size()) + ".json";
                std::ofstream(path) << json({{"kind", "io"}, {"case", c}, {"why", f.why}}).dump(1) << "\n";
                replays.push_back(path);
                notes.push_back(k + ": " + f.why.substr(0, 400));
            }
        } catch (const std::exception &e) {
            ++failures;
            if (replays.size() < maxFail) {
                std::string path = replayDir + "/" + tag + "-" + std::to_string(replays.size()) + ".json";
                std::ofstream(path) << json({{"kind", "io"}, {"case", c}, {"why", std::string("exception: ") + e.what()}}).dump(1) << "\n";
                replays.push_back(path);
                notes.push_back(k + ": exception outside a loader: " + e.what());
            }
        }
    }
    if (g_records.is_open())
        g_records.close();
    json summary = {{"mode", "io"}, {"cases", cases}, {"runs", cases}, {"failures", failures}, {"records", 0},
                    {"cut_inside_record", cutInside}, {"cut_at_record_boundary", cutAtBoundary},
                    {"malformed_text_files", malformed}, {"skipped_input_not_constructible", skipped},
                    {"kinds", kinds}, {"replays", replays}, {"fail_notes", notes}, {"samples", samples},
                    {"families", json::array({"Labeled*Graph<NoLabel|uint8|uint16|uint32|uint64|int|float|double|std::string>"})}};
    std::cout << "SUMMARY " << summary.dump() << std::endl;
    return failures ? 1 : 0;
}
