#ifndef VERIF_REGISTRY_HPP
#define VERIF_REGISTRY_HPP
#include "objects.hpp"
#include <functional>
#include <map>

namespace verif {
using Factory = std::function<std::unique_ptr<IObj>()>;
inline std::map<std::string, std::vector<Factory>> &registry() {
    static std::map<std::string, std::vector<Factory>> r;
    return r;
}
template <class G> struct Registrar {
    explicit Registrar(const char *group) {
        registry()[group].push_back([] { return std::unique_ptr<IObj>(new Obj<G>()); });
        // the weighted classes are also run with inexactly representable weights
        if (GInfo<G>::kind == KindTag::Weighted)
            registry()[group].push_back([] {
                auto *o = new Obj<G>();
                o->variant = 1;
                return std::unique_ptr<IObj>(o);
            });
    }
};
} // namespace verif
#endif
