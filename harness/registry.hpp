#ifndef VERIF_REGISTRY_HPP
#define VERIF_REGISTRY_HPP
#include "objects.hpp"
#include <functional>
#include <map>

namespace verif {
using Factory = std::function<std::unique_ptr<IObj>()>;
inline std::map<std::string, std::vector<Factory>> &registry() {
    static std::map<std::string, std::vector<Factory>> r;
    return r;
}
template <class G> struct Registrar {
    explicit Registrar(const char *group) {
        registry()[group].push_back([] { return std::unique_ptr<IObj>(new Obj<G>()); });
        // the weighted classes are also run with inexactly representable weights, the
        // multigraphs with multiplicities in units of 2^30 (sums cross 2^31 and 2^32)
        if (GInfo<G>::kind == KindTag::Weighted || GInfo<G>::kind == KindTag::Multi)
            registry()[group].push_back([] {
                auto *o = new Obj<G>();
                o->variant = 1;
                return std::unique_ptr<IObj>(o);
            });
    }
};
} // namespace verif
#endif
