// Multigraph and weighted classes: edge-list constructors (C09) and Dijkstra (C12, C19, C07).
#include "algo.hpp"
#include <tuple>

namespace verif {

class MWFamily : public IAlgoFamily {
  public:
    std::string name() const override { return "multigraph+weighted classes"; }
    bool handles(const std::string &k) const override {
        return k == "edgelist_multi" || k == "edgelist_weighted" || k == "dijkstra" || k == "reject_dijkstra" ||
               k == "big_conv";
    }
    CaseResult run(const json &c, unsigned seed) override {
        const std::string k = c.at("k");
        CaseResult r;
        if (k == "big_conv") {
            bigEdgeList<DirectedMultigraph, UndirectedMultigraph, EdgeMultiplicity>(c, "multi", r);
            bigEdgeList<DirectedWeightedGraph, UndirectedWeightedGraph, EdgeWeight>(c, "weighted", r);
        } else if (k == "edgelist_multi")
            edgeList<DirectedMultigraph, UndirectedMultigraph, EdgeMultiplicity>(c, r);
        else if (k == "edgelist_weighted")
            edgeList<DirectedWeightedGraph, UndirectedWeightedGraph, EdgeWeight>(c, r);
        else
            for (unsigned order : {0u, seed + 1}) {
                if (k == "dijkstra") {
                    if (c.at("dir").get<bool>())
                        dijkstra<DirectedWeightedGraph>(c, order, r);
                    else
                        dijkstra<UndirectedWeightedGraph>(c, order, r);
                } else if (k == "reject_dijkstra") {
                    if (c.at("dir").get<bool>())
                        rejectD<DirectedWeightedGraph>(c, order, r);
                    else
                        rejectD<UndirectedWeightedGraph>(c, order, r);
                }
                if (!r.ok)
                    break;
            }
        return r;
    }

  private:
    template <class DGT, class UGT, class A> void bigEdgeList(const json &c, const char *kind, CaseResult &r) {
        using E = LabeledEdge<A>;
        std::mt19937 rng(c.value("seed", 1u) + 17);
        const size_t n = c.at("n").get<size_t>();
        std::vector<E> v;
        json seq = json::array();
        for (size_t k = 0; k < c.value("list", 120); ++k) {
            VertexIndex i = rng() % n, j = rng() % n;
            int a = (int)(rng() % 4); // multiplicity 0 is a no-op, weight 0 a valid weight
            if (k % 5 == 2 && !v.empty()) {
                auto &e0 = seq[rng() % seq.size()];
                i = e0[1].get<VertexIndex>();
                j = e0[0].get<VertexIndex>();
            }
            v.push_back(E(i, j, (A)a));
            seq.push_back({i, j, a});
        }
        try {
            DGT d(v);
            UGT u(std::deque<E>(v.begin(), v.end()));
            r.records.push_back({{"k", "conv_edgelist"}, {"kind", kind}, {"family", GInfo<DGT>::name()}, {"dir", true},
                                 {"seq", seq}, {"out", encOf(d)}});
            r.records.push_back({{"k", "conv_edgelist"}, {"kind", kind}, {"family", GInfo<UGT>::name()}, {"dir", false},
                                 {"seq", seq}, {"out", encOf(u)}});
        } catch (const std::exception &e) {
            r.fail(std::string("an edge-list constructor threw: ") + e.what());
        }
    }
    template <class DGT, class UGT, class A> void edgeList(const json &c, CaseResult &r) {
        using E = LabeledEdge<A>;
        std::vector<E> v;
        for (auto &t : c.at("s"))
            v.push_back(E(t[0].get<unsigned>(), t[1].get<unsigned>(), (A)t[2].get<int>()));
        auto both = [&](auto &&cont, const char *what) {
            DGT d(cont);
            UGT u(cont);
            if (encOf(d) != c.at("outD"))
                r.fail(std::string("directed constructor from ") + what + ": " + diffNote(c.at("outD"), encOf(d)));
            else if (encOf(u) != c.at("outU"))
                r.fail(std::string("undirected constructor from ") + what + ": " + diffNote(c.at("outU"), encOf(u)));
        };
        both(v, "std::vector");
        both(std::list<E>(v.begin(), v.end()), "std::list");
        both(std::deque<E>(v.begin(), v.end()), "std::deque");
        std::multiset<E> ms(v.begin(), v.end());
        std::vector<E> vms(ms.begin(), ms.end());
        if (!(DGT(ms) == DGT(vms)) || !(UGT(ms) == UGT(vms)) || encOf(DGT(ms)) != encOf(DGT(vms)))
            r.fail("constructor from std::multiset differs from the same sequence in a std::vector");
    }

    // Every Dijkstra case is run three times: with the integer weights as they are, in units
    // of 2^-54 and in units of 2^40 (all path sums stay exactly representable, so the
    // distances must scale exactly): absolute tolerances and narrow accumulators show up.
    template <class W> void dijkstra(const json &c, unsigned order, CaseResult &r) {
        // ... and once in units of 0.1 (path sums are then inexact: only the amount of work, C19,
        // is judged on those records)
        for (double unitW : {1.0, 5.551115123125783e-17 /* 2^-54 */, 1099511627776.0 /* 2^40 */, 0.1}) {
            dijkstraScaled<W>(c, order, unitW, r);
            if (!r.ok)
                return;
        }
    }
    template <class W> void dijkstraScaled(const json &c, unsigned order, double unitW, CaseResult &r) {
        W g0 = buildFromEnc<W>(c.at("g"), order);
        if (unitW != 1.0) {
            std::vector<std::tuple<VertexIndex, VertexIndex, double>> es;
            for (auto e : g0.edges())
                es.emplace_back(e.first, e.second, g0.getEdgeWeight(e.first, e.second));
            for (auto &t : es)
                g0.setEdgeWeight(std::get<0>(t), std::get<1>(t), std::get<2>(t) * unitW);
        }
        const size_t n = g0.getSize();
        size_t E = 0;
        for (VertexIndex v = 0; v < n; ++v)
            E += g0.getOutNeighbours(v).size();
        for (VertexIndex s = 0; s < n; ++s) {
            if (c.contains("sources")) {
                auto src = c.at("sources").get<std::vector<VertexIndex>>();
                if (std::find(src.begin(), src.end(), s) == src.end())
                    continue;
            }
            json rec = {{"k", "dijkstra"}, {"dir", GInfo<W>::directed}, {"g", c.at("g")}, {"s", s},
                        {"V", n}, {"E", E}, {"family", GInfo<W>::name() + (unitW == 1.0 ? "" : unitW == 0.1 ? " [weights x 0.1]" : unitW < 1 ? " [weights x 2^-54]" : " [weights x 2^40]")}};
            try {
                CountW<W> cg(g0);
                cg.cap = 64 * (n + E) + 64;
                auto res = algorithms::findGeodesicsDijkstra(cg, s);
                rec["scans"] = cg.scans;
                json d = json::array();
                const bool inexact = unitW == 0.1;
                rec["inexact"] = inexact;
                for (double x0 : res.first) {
                    if (inexact) {
                        d.push_back(-2);
                        continue;
                    }
                    double x = x0 == algorithms::BASEGRAPH_INFINITY ? x0 : x0 / unitW;
                    if (x == algorithms::BASEGRAPH_INFINITY)
                        d.push_back(SENT);
                    else if (x == std::nearbyint(x) && x >= 0 && x < 1e9)
                        d.push_back((long long)x);
                    else
                        return r.fail("distance " + std::to_string(x0) + " is not a non-negative integer multiple of the weight unit");
                }
                rec["dist"] = d;
                rec["pred"] = seqJson(res.second);
            } catch (const ScanCapExceeded &) {
                return r.fail("Dijkstra from " + std::to_string(s) + " exceeded " + std::to_string(64 * (n + E) + 64) +
                              " neighbourhood scans (V+E = " + std::to_string(n + E) + ")");
            } catch (const std::exception &e) {
                return r.fail(std::string("Dijkstra threw on a valid input: ") + e.what());
            }
            r.records.push_back(rec);
        }
    }

    template <class W> void rejectD(const json &c, unsigned order, CaseResult &r) {
        const W g = buildFromEnc<W>(c.at("g"), order);
        const VertexIndex s = vtx(c.at("s"));
        json before = Obj<W>(g).exact();
        std::string out = classify([&] { algorithms::findGeodesicsDijkstra(g, s); });
        const std::string exp = c.at("out");
        if (exp == "out_of_range" && out != "out_of_range")
            return r.fail("findGeodesicsDijkstra(" + c.at("s").dump() + ") on " + std::to_string(g.getSize()) +
                          " vertices: expected std::out_of_range, got " + out);
        if (exp == "ok" && out != "ok")
            return r.fail("findGeodesicsDijkstra on a valid source: " + out);
        if (Obj<W>(g).exact() != before)
            r.fail("findGeodesicsDijkstra changed the graph");
    }
};

namespace {
struct Reg {
    Reg() { algoFamilies().emplace_back(new MWFamily()); }
} reg_;
}
} // namespace verif
