// Multigraph and weighted classes: edge-list constructors (C09) and Dijkstra (C12, C19, C07).
#include "algo.hpp"
#include <set>
#include <tuple>

namespace verif {

class MWFamily : public IAlgoFamily {
  public:
    std::string name() const override { return "multigraph+weighted classes"; }
    bool handles(const std::string &k) const override {
        return k == "edgelist_multi" || k == "edgelist_weighted" || k == "dijkstra" || k == "reject_dijkstra" ||
               k == "big_conv" || k == "dijkstra_adversarial" || k == "search_deep";
    }
    CaseResult run(const json &c, unsigned seed) override {
        const std::string k = c.at("k");
        CaseResult r;
        if (k == "search_deep") {
            deepDijkstra<DirectedWeightedGraph>(c, r);
            if (r.ok)
                deepDijkstra<UndirectedWeightedGraph>(c, r);
        } else if (k == "dijkstra_adversarial") {
            if (c.at("dir").get<bool>())
                adversarial<DirectedWeightedGraph>(c, r);
            else
                adversarial<UndirectedWeightedGraph>(c, r);
        } else if (k == "big_conv") {
            bigEdgeList<DirectedMultigraph, UndirectedMultigraph, EdgeMultiplicity>(c, "multi", r);
            bigEdgeList<DirectedWeightedGraph, UndirectedWeightedGraph, EdgeWeight>(c, "weighted", r);
        } else if (k == "edgelist_multi")
            edgeList<DirectedMultigraph, UndirectedMultigraph, EdgeMultiplicity>(c, r);
        else if (k == "edgelist_weighted")
            edgeList<DirectedWeightedGraph, UndirectedWeightedGraph, EdgeWeight>(c, r);
        else
            for (unsigned order : {0u, seed + 1}) {
                if (k == "dijkstra") {
                    if (c.at("dir").get<bool>())
                        dijkstra<DirectedWeightedGraph>(c, order, r);
                    else
                        dijkstra<UndirectedWeightedGraph>(c, order, r);
                } else if (k == "reject_dijkstra") {
                    if (c.at("dir").get<bool>())
                        rejectD<DirectedWeightedGraph>(c, order, r);
                    else
                        rejectD<UndirectedWeightedGraph>(c, order, r);
                }
                if (!r.ok)
                    break;
            }
        return r;
    }

  private:
    // C19: search for inputs that maximise the number of neighbourhood scans relative to the
    // bound (a (1+1) evolutionary search over edge sets, weights and insertion orders, guided
    // by the real implementation); the best instances found become ordinary records, so the
    // verdict is still TLC's ScansOK on them.
    struct Inst {
        size_t n;
        std::vector<std::tuple<VertexIndex, VertexIndex, int>> edges; // in insertion order
    };
    template <class W> static W buildInst(const Inst &in) {
        W g(in.n);
        for (auto &e : in.edges)
            g.addEdge(std::get<0>(e), std::get<1>(e), (double)std::get<2>(e));
        return g;
    }
    template <class W> static double fitness(const Inst &in, VertexIndex s, size_t &scans, size_t &bound) {
        W g = buildInst<W>(in);
        size_t E = 0;
        for (VertexIndex v = 0; v < in.n; ++v)
            E += g.getOutNeighbours(v).size();
        CountW<W> cg(g);
        cg.cap = 200 * (in.n + E) + 200;
        try {
            algorithms::findGeodesicsDijkstra(cg, s);
        } catch (const ScanCapExceeded &) {
        }
        scans = cg.scans;
        bound = in.n + E + 1;
        return (double)scans / (double)bound;
    }
    template <class W> void adversarial(const json &c, CaseResult &r) {
        const size_t n = c.at("n").get<size_t>();
        const int iters = c.value("iterations", 20000);
        std::mt19937 rng(c.value("seed", 1u));
        const int maxW = c.value("max_weight", 30);
        Inst best;
        double bestFit = -1;
        for (int restart = 0; restart < c.value("restarts", 4); ++restart) {
            Inst cur;
            cur.n = n;
            std::set<std::pair<VertexIndex, VertexIndex>> present;
            for (size_t k = 0; k < 3 * n; ++k) {
                VertexIndex i = rng() % n, j = rng() % n;
                if (i == j || !present.insert({i, j}).second || (!GInfo<W>::directed && present.count({j, i}) && i != j && present.count({j, i}) && false))
                    continue;
                cur.edges.emplace_back(i, j, (int)(rng() % (maxW + 1)));
            }
            size_t sc, bd;
            double curFit = fitness<W>(cur, 0, sc, bd);
            for (int it = 0; it < iters; ++it) {
                Inst nx = cur;
                switch (rng() % 5) {
                case 0: // change a weight
                    if (!nx.edges.empty())
                        std::get<2>(nx.edges[rng() % nx.edges.size()]) = (int)(rng() % (maxW + 1));
                    break;
                case 1: { // add an edge
                    VertexIndex i = rng() % n, j = rng() % n;
                    bool dup = false;
                    for (auto &e : nx.edges)
                        if ((std::get<0>(e) == i && std::get<1>(e) == j) ||
                            (!GInfo<W>::directed && std::get<0>(e) == j && std::get<1>(e) == i))
                            dup = true;
                    if (!dup)
                        nx.edges.insert(nx.edges.begin() + (nx.edges.empty() ? 0 : rng() % nx.edges.size()),
                                        std::make_tuple(i, j, (int)(rng() % (maxW + 1))));
                    break;
                }
                case 2: // remove an edge
                    if (nx.edges.size() > 2)
                        nx.edges.erase(nx.edges.begin() + rng() % nx.edges.size());
                    break;
                case 3: // swap the insertion order of two edges
                    if (nx.edges.size() > 1)
                        std::swap(nx.edges[rng() % nx.edges.size()], nx.edges[rng() % nx.edges.size()]);
                    break;
                default: // nudge a weight
                    if (!nx.edges.empty()) {
                        int &w = std::get<2>(nx.edges[rng() % nx.edges.size()]);
                        w = std::max(0, w + (int)(rng() % 3) - 1);
                    }
                }
                double f = fitness<W>(nx, 0, sc, bd);
                if (f >= curFit) {
                    cur = std::move(nx);
                    curFit = f;
                }
            }
            if (curFit > bestFit) {
                bestFit = curFit;
                best = cur;
            }
        }
        // the best instance becomes a record (built exactly as it was evaluated)
        W g = buildInst<W>(best);
        size_t E = 0;
        for (VertexIndex v = 0; v < n; ++v)
            E += g.getOutNeighbours(v).size();
        CountW<W> cg(g);
        cg.cap = 200 * (n + E) + 200;
        json rec = {{"k", "dijkstra"}, {"dir", GInfo<W>::directed}, {"g", encOf(g)}, {"s", 0}, {"V", n}, {"E", E},
                    {"family", GInfo<W>::name() + " [adversarial search]"}, {"inexact", true}};
        try {
            auto res = algorithms::findGeodesicsDijkstra(cg, 0);
            rec["pred"] = seqJson(res.second);
        } catch (const ScanCapExceeded &) {
            rec["pred"] = json::array();
        }
        rec["scans"] = cg.scans;
        rec["dist"] = json::array();
        rec["search_best_ratio"] = bestFit;
        r.records.push_back(rec);
    }
    template <class DGT, class UGT, class A> void bigEdgeList(const json &c, const char *kind, CaseResult &r) {
        using E = LabeledEdge<A>;
        std::mt19937 rng(c.value("seed", 1u) + 17);
        const size_t n = c.at("n").get<size_t>();
        std::vector<E> v;
        json seq = json::array();
        for (size_t k = 0; k < c.value("list", 120); ++k) {
            VertexIndex i = rng() % n, j = rng() % n;
            int a = (int)(rng() % 4); // multiplicity 0 is a no-op, weight 0 a valid weight
            if (k % 5 == 2 && !v.empty()) {
                auto &e0 = seq[rng() % seq.size()];
                i = e0[1].get<VertexIndex>();
                j = e0[0].get<VertexIndex>();
            }
            v.push_back(E(i, j, (A)a));
            seq.push_back({i, j, a});
        }
        try {
            DGT d(v);
            UGT u(std::deque<E>(v.begin(), v.end()));
            size_t nn = 0;
            for (auto &t : seq)
                nn = std::max<size_t>(nn, 1 + std::max(t[0].get<size_t>(), t[1].get<size_t>()));
            DGT od(nn);
            UGT ou(nn);
            for (auto &e : v) {
                if constexpr (std::is_same<A, EdgeMultiplicity>::value) {
                    od.addMultiedge(std::get<0>(e), std::get<1>(e), std::get<2>(e));
                    ou.addMultiedge(std::get<0>(e), std::get<1>(e), std::get<2>(e));
                } else {
                    od.addEdge(std::get<0>(e), std::get<1>(e), std::get<2>(e));
                    ou.addEdge(std::get<0>(e), std::get<1>(e), std::get<2>(e));
                }
            }
            r.records.push_back({{"k", "conv_edgelist"}, {"kind", kind}, {"family", GInfo<DGT>::name()}, {"dir", true},
                                 {"seq", seq}, {"out", encOf(d)}, {"one", encOf(od)}, {"equal_one", (d == od) && !(d != od)}});
            r.records.push_back({{"k", "conv_edgelist"}, {"kind", kind}, {"family", GInfo<UGT>::name()}, {"dir", false},
                                 {"seq", seq}, {"out", encOf(u)}, {"one", encOf(ou)}, {"equal_one", (u == ou) && !(u != ou)}});
        } catch (const std::exception &e) {
            r.fail(std::string("an edge-list constructor threw: ") + e.what());
        }
    }
    template <class DGT, class UGT, class A> void edgeList(const json &c, CaseResult &r) {
        using E = LabeledEdge<A>;
        std::vector<E> v;
        for (auto &t : c.at("s"))
            v.push_back(E(t[0].get<unsigned>(), t[1].get<unsigned>(), (A)t[2].get<int>()));
        // relative oracle (see algo_labeled.hpp): equal to adding the edges one at a time
        auto one = [&](auto tag, auto &&cont, const json &want, const char *what) {
            using GT = typename decltype(tag)::type;
            GT built(cont);
            size_t n = 0;
            for (auto &e : cont)
                n = std::max<size_t>(n, 1 + std::max(std::get<0>(e), std::get<1>(e)));
            GT oneAtATime(n);
            for (auto &e : cont) {
                if constexpr (std::is_same<A, EdgeMultiplicity>::value)
                    oneAtATime.addMultiedge(std::get<0>(e), std::get<1>(e), std::get<2>(e));
                else
                    oneAtATime.addEdge(std::get<0>(e), std::get<1>(e), std::get<2>(e));
            }
            if (built.getSize() != n)
                r.fail(GInfo<GT>::name() + " constructor from " + what + ": " + std::to_string(built.getSize()) +
                       " vertices instead of " + std::to_string(n));
            else if (!(built == oneAtATime) || built != oneAtATime || encOf(built) != encOf(oneAtATime))
                r.fail(GInfo<GT>::name() + " constructor from " + what + " differs from adding the edges one at a time: " +
                       diffNote(encOf(oneAtATime), encOf(built)));
            else if (encOf(built) != want)
                r.diagnostics.push_back("constructor result differs from the specification's");
        };
        struct TD { using type = DGT; };
        struct TU { using type = UGT; };
        auto both = [&](auto &&cont, const char *what) {
            one(TD{}, cont, c.at("outD"), what);
            if (r.ok)
                one(TU{}, cont, c.at("outU"), what);
        };
        both(v, "std::vector");
        both(std::list<E>(v.begin(), v.end()), "std::list");
        both(std::deque<E>(v.begin(), v.end()), "std::deque");
        std::multiset<E> ms(v.begin(), v.end());
        std::vector<E> vms(ms.begin(), ms.end());
        if (!(DGT(ms) == DGT(vms)) || !(UGT(ms) == UGT(vms)) || encOf(DGT(ms)) != encOf(DGT(vms)))
            r.fail("constructor from std::multiset differs from the same sequence in a std::vector");
    }

    // Every Dijkstra case is run three times: with the integer weights as they are, in units
    // of 2^-54 and in units of 2^40 (all path sums stay exactly representable, so the
    // distances must scale exactly): absolute tolerances and narrow accumulators show up.
    template <class W> void dijkstra(const json &c, unsigned order, CaseResult &r) {
        // ... and once in units of 0.1 (path sums are then inexact: only the amount of work, C19,
        // is judged on those records)
        for (double unitW : {1.0, 5.551115123125783e-17 /* 2^-54 */, 1099511627776.0 /* 2^40 */, 0.1}) {
            dijkstraScaled<W>(c, order, unitW, r);
            if (!r.ok)
                return;
        }
    }
    template <class W> void dijkstraScaled(const json &c, unsigned order, double unitW, CaseResult &r) {
        W g0 = buildFromEnc<W>(c.at("g"), order);
        if (!inputAsSpecified(g0, c.at("g"), r))
            return;
        if (unitW != 1.0) {
            std::vector<std::tuple<VertexIndex, VertexIndex, double>> es;
            for (auto e : g0.edges())
                es.emplace_back(e.first, e.second, g0.getEdgeWeight(e.first, e.second));
            // (in the 2^40 regime every zero weight is written as NEGATIVE zero: finite, not negative)
            for (auto &t : es) {
                double w = std::get<2>(t) * unitW;
                if (w == 0 && unitW > 1)
                    w = -0.0;
                g0.setEdgeWeight(std::get<0>(t), std::get<1>(t), w);
            }
        }
        const size_t n = g0.getSize();
        size_t E = 0;
        for (VertexIndex v = 0; v < n; ++v)
            E += g0.getOutNeighbours(v).size();
        for (VertexIndex s = 0; s < n; ++s) {
            if (c.contains("sources")) {
                auto src = c.at("sources").get<std::vector<VertexIndex>>();
                if (std::find(src.begin(), src.end(), s) == src.end())
                    continue;
            }
            json rec = {{"k", "dijkstra"}, {"dir", GInfo<W>::directed}, {"g", c.at("g")}, {"s", s},
                        {"V", n}, {"E", E}, {"family", GInfo<W>::name() + (unitW == 1.0 ? "" : unitW == 0.1 ? " [weights x 0.1]" : unitW < 1 ? " [weights x 2^-54]" : " [weights x 2^40]")}};
            try {
                CountW<W> cg(g0);
                cg.cap = 64 * (n + E) + 64;
                auto res = algorithms::findGeodesicsDijkstra(cg, s);
                rec["scans"] = cg.scans;
                json d = json::array();
                const bool inexact = unitW == 0.1;
                rec["inexact"] = inexact;
                for (double x0 : res.first) {
                    if (inexact) {
                        d.push_back(-2);
                        continue;
                    }
                    double x = x0 == algorithms::BASEGRAPH_INFINITY ? x0 : x0 / unitW;
                    if (x == algorithms::BASEGRAPH_INFINITY)
                        d.push_back(SENT);
                    else if (x == std::nearbyint(x) && x >= 0 && x < 1e9)
                        d.push_back((long long)x);
                    else
                        return r.fail("distance " + std::to_string(x0) + " is not a non-negative integer multiple of the weight unit");
                }
                rec["dist"] = d;
                rec["pred"] = seqJson(res.second);
            } catch (const ScanCapExceeded &) {
                return r.fail("Dijkstra from " + std::to_string(s) + " exceeded " + std::to_string(64 * (n + E) + 64) +
                              " neighbourhood scans (V+E = " + std::to_string(n + E) + ")");
            } catch (const std::exception &e) {
                return r.fail(std::string("Dijkstra threw on a valid input: ") + e.what());
            }
            r.records.push_back(rec);
        }
    }

    // a path 0 - 1 - ... - n-1 with weights 1, 2, 1, 2, ...: the distances are known in closed form,
    // whatever n is (n around and beyond 2^16; also run with a small stack, see lib/props_algo.py)
    template <class W> void deepDijkstra(const json &c, CaseResult &r) {
        const size_t n = c.at("n").get<size_t>();
        W g(n);
        for (VertexIndex v = 0; v + 1 < n; ++v)
            g.addEdge(v, v + 1, 1.0 + (v % 2), true);
        try {
            auto res = algorithms::findGeodesicsDijkstra(g, 0);
            if (res.first.size() != n || res.second.size() != n)
                return r.fail("Dijkstra on a path of " + std::to_string(n) + " vertices: result sizes");
            for (VertexIndex v = 0; v < n; ++v) {
                double want = (v / 2) * 3.0 + (v % 2);
                if (res.first[v] != want || (v > 0 && res.second[v] != v - 1))
                    return r.fail("Dijkstra on a path of " + std::to_string(n) + " vertices: vertex " + std::to_string(v) +
                                  " has distance " + std::to_string(res.first[v]) + " predecessor " +
                                  std::to_string(res.second[v]) + ", expected " + std::to_string(want));
            }
        } catch (const std::exception &e) {
            return r.fail("Dijkstra on a path of " + std::to_string(n) + " vertices threw: " + e.what());
        }
    }

    template <class W> void rejectD(const json &c, unsigned order, CaseResult &r) {
        const W g = buildFromEnc<W>(c.at("g"), order);
        const VertexIndex s = vtx(c.at("s"));
        json before = Obj<W>(g).exact();
        std::string out = classify([&] { algorithms::findGeodesicsDijkstra(g, s); });
        const std::string exp = c.at("out");
        if (exp == "out_of_range" && out != "out_of_range")
            return r.fail("findGeodesicsDijkstra(" + c.at("s").dump() + ") on " + std::to_string(g.getSize()) +
                          " vertices: expected std::out_of_range, got " + out);
        if (exp == "ok" && out != "ok")
            return r.fail("findGeodesicsDijkstra on a valid source: " + out);
        if (Obj<W>(g).exact() != before)
            r.fail("findGeodesicsDijkstra changed the graph");
    }
};

namespace {
struct Reg {
    Reg() { algoFamilies().emplace_back(new MWFamily()); }
} reg_;
}
} // namespace verif
