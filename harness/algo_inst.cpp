// -DVLABEL=<label type>: registers the labelled-graph algorithm family for that label.
#include "algo_labeled.hpp"
namespace {
struct Reg {
    Reg() { verif::algoFamilies().emplace_back(new verif::LabeledFamily<VLABEL>()); }
} reg_;
}
