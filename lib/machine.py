"""Scenarios over spec/Machine.tla (one graph object of one of the eight
classes) and the three kinds of run on them:

  mc      TLC exhaustive model checking of the property's invariants
  walk    spec -> code: TLC prints every transition of the state graph and the
          C++ harness executes each of them on real objects
  trace   code -> spec: the harness records random executions of real objects
          and TLC validates them against the specification (MachineTrace.tla)
"""
import json
import os
import shutil
import subprocess
import time

import vf

GROUPS = {
    # group: (Directed, Kind)
    "dn": (True, "nolabel"), "un": (False, "nolabel"),
    "dl": (True, "labeled"), "ul": (False, "labeled"),
    "dm": (True, "multi"), "um": (False, "multi"),
    "dw": (True, "weighted"), "uw": (False, "weighted"),
}
N_FAMILIES = {"dn": 1, "un": 1, "dl": 6, "ul": 6, "dm": 2, "um": 2, "dw": 2, "uw": 2}

COMMON = ["resize", "clearEdges", "removeDuplicateEdges", "removeSelfLoops", "removeVertexFromEdgeList",
          "removeEdge", "addEdge", "relocate"]
OBSERVER_OPS = ["hasEdge", "getEdgeLabel", "getEdgeLabelNoThrow", "getOutNeighbours", "assertVertexInRange",
                "getOutDegree", "getInDegree", "getDegree", "getEdgeMultiplicity", "getEdgeWeight"]


def mutators(group, reciprocal=True):
    directed, kind = GROUPS[group]
    ops = list(COMMON)
    if kind in ("nolabel", "labeled"):
        ops.append("addEdgeD")
        if kind == "labeled":
            ops.append("setEdgeLabel")
        if directed and reciprocal:
            ops.append("addReciprocalEdge")
    elif kind == "multi":
        ops += ["addMultiedge", "removeMultiedge", "setEdgeMultiplicity"]
        if directed and reciprocal:
            ops += ["addReciprocalEdge", "addReciprocalMultiedge"]
    else:
        ops.append("setEdgeWeight")
    return ops


def observers(group):
    directed, kind = GROUPS[group]
    ops = ["hasEdge", "getEdgeLabel", "getEdgeLabelNoThrow", "getOutNeighbours", "assertVertexInRange"]
    ops += ["getOutDegree", "getInDegree"] if directed else ["getDegree"]
    if kind == "multi":
        ops.append("getEdgeMultiplicity")
    if kind == "weighted":
        ops.append("getEdgeWeight")
    return ops


ALL_INVARIANTS = ["TypeOK", "HasEdgeOK", "NeighboursOK", "Symmetric", "CountOK", "DegreesOK", "MatrixOK",
                  "EdgesOK", "LabelsOK", "HasEdgeLOK", "MultOK", "TotalOK", "WeightMatrixOK",
                  "DedupEqualsUnforced", "AfterDedup"]
ALL_PROPERTIES = ["Idempotent", "ResizeKeeps", "RejectNothing", "MultArith"]


class Scenario:
    def __init__(self, name, group, maxn, ops=None, labels=(0, 1, 2), mults=(0, 1, 2), maxmult=3,
                 weights="WeightSet3", forces=(False,), maxcopies=1, orphan=False, bad=False, pinned=(),
                 invariants=None, properties=None, walk=True, reps=2, trace=None, workers=4,
                 add_only_when_dup=False):
        self.name, self.group, self.maxn = name, group, maxn
        self.directed, self.kind = GROUPS[group]
        self.ops = list(ops) if ops is not None else mutators(group)
        self.labels, self.mults, self.maxmult, self.weights = labels, mults, maxmult, weights
        self.forces, self.maxcopies, self.orphan, self.bad, self.pinned = forces, maxcopies, orphan, bad, pinned
        self.invariants = list(invariants) if invariants is not None else list(ALL_INVARIANTS)
        self.properties = list(properties) if properties is not None else list(ALL_PROPERTIES)
        self.walk, self.reps, self.trace, self.workers = walk, reps, trace, workers
        # which observers / state components / consistency topics the check compares (None = all)
        self.obs_fields = self.state_fields = self.topics = None
        self.check_valid = True

    def scope_plan(self):
        p = {}
        if self.obs_fields is not None:
            p["obs_fields"] = list(self.obs_fields)
        if self.state_fields is not None:
            p["state_fields"] = list(self.state_fields)
        if self.topics is not None:
            p["topics"] = list(self.topics)
        if not self.check_valid:
            p["check_valid"] = False
        if getattr(self, "mask_by_has", False):
            p["mask_by_has"] = True
        return p

    def constants(self, emit):
        return {
            "Directed": "= " + ("TRUE" if self.directed else "FALSE"),
            "Kind": '= "%s"' % self.kind,
            "Pinned": "= " + vf.tla_set(self.pinned),
            "MaxN": "= %d" % self.maxn,
            "Ops": "= " + vf.tla_set(self.ops),
            "LabelArgs": "= " + vf.tla_set(self.labels),
            "MultArgs": "= " + vf.tla_set(self.mults),
            "MaxMult": "= %d" % self.maxmult,
            "WeightArgs": "<- " + self.weights,
            "Forces": "= " + vf.tla_set(self.forces),
            "MaxCopies": "= %d" % self.maxcopies,
            "OrphanForce": "= " + ("TRUE" if self.orphan else "FALSE"),
            "BadOffsets": ("<- BadAll" if self.bad else "= {}"),
            "EmitJson": "= " + ("TRUE" if emit else "FALSE"),
        }


def _tlc_env():
    env = dict(os.environ)
    env.pop("JAVA_TOOL_OPTIONS", None)
    return env


def run_mc_walk(pid, scn, gh_exe, timeout=3600, heap="6g"):
    """TLC exhaustive run of the scenario; when scn.walk the transition graph is piped
    into the harness.  Returns a result dict."""
    d = vf.fresh_dir(os.path.join(vf.RUN, pid, scn.name))
    module = getattr(scn, "module", "Machine.tla")
    cfg = vf.write_cfg(os.path.join(d, module.replace(".tla", ".cfg")), scn.constants(emit=scn.walk), view="View",
                       action_constraints=["Emit"], invariants=scn.invariants, properties=scn.properties,
                       constraints=getattr(scn, "constraints", ["ExploreOnlySame"]))
    cmd = vf.tlc_cmd(module, cfg, os.path.join(d, "md"), workers=scn.workers, heap=heap,
                     extra=["-coverage", "1"] if not scn.walk else [])
    t0 = time.time()
    res = {"scenario": scn.name, "group": scn.group, "kind": scn.kind, "directed": scn.directed}
    tlc_log = os.path.join(d, "tlc.log")
    if scn.walk:
        plan = {"group": scn.group, "reps": scn.reps, "replay_dir": vf.REPLAYS,
                "tag": "%s-%s-walk" % (pid, scn.name), "crash_note": os.path.join(d, "crash.json"), "max_fail": 3,
                "init_n": getattr(scn, "initn", 0)}
        if hasattr(scn, "scope_plan"):
            plan.update(scn.scope_plan())
        planf = os.path.join(d, "plan.json")
        with open(planf, "w") as f:
            json.dump(plan, f)
        os.makedirs(vf.REPLAYS, exist_ok=True)
        # TLC | tee(non-JSON lines -> log) | harness
        tlc = subprocess.Popen(cmd, cwd=vf.SPEC, stdout=subprocess.PIPE, stderr=subprocess.STDOUT, env=_tlc_env())
        gh = subprocess.Popen([gh_exe, getattr(scn, "mode", "walk"), planf], stdin=subprocess.PIPE, stdout=subprocess.PIPE,
                              stderr=subprocess.PIPE)
        with open(tlc_log, "wb") as logf:
            try:
                for line in tlc.stdout:
                    if line[:2] == b'"{':
                        try:
                            gh.stdin.write(line)
                        except BrokenPipeError:
                            tlc.kill()      # the harness is gone: nobody reads the transitions any more
                            break
                    else:
                        logf.write(line)
            finally:
                try:
                    gh.stdin.close()
                except Exception:
                    pass
                gh.stdin = None
        try:
            tlc.wait(timeout=timeout)
        except subprocess.TimeoutExpired:
            tlc.kill()
            raise vf.Infra("TLC timed out on " + scn.name)
        out, err = gh.communicate(timeout=timeout)
        res["walk_rc"] = gh.returncode
        summary = None
        for ln in out.decode(errors="replace").splitlines():
            if ln.startswith("SUMMARY "):
                summary = json.loads(ln[8:])
        res["walk"] = summary
        if summary is None:
            # the harness died: the crash note says on which transition
            note = None
            try:
                with open(os.path.join(d, "crash.json")) as f:
                    note = json.load(f)
            except Exception:
                pass
            res["crash"] = {"rc": gh.returncode, "note": note, "stderr": err.decode(errors="replace")[-3000:]}
    else:
        cut = False
        with open(tlc_log, "wb") as logf:
            try:
                subprocess.run(cmd, cwd=vf.SPEC, stdout=logf, stderr=subprocess.STDOUT, timeout=timeout, env=_tlc_env())
            except subprocess.TimeoutExpired:
                cut = True
    with open(tlc_log, errors="replace") as f:
        text = f.read()
    res["tlc"] = vf.parse_tlc_output(text)
    if not scn.walk and locals().get("cut") and not res["tlc"]["violation"]:
        # a model-checking-only scenario (no walk) cut by the time limit without a violation: what was
        # explored counts as explored - the numbers of the last progress line - not as exhaustive
        import re
        m = None
        for m in re.finditer(r"Progress\(\d+\).*?: ([\d,]+) states generated.*?, ([\d,]+) distinct states found", text):
            pass
        if m:
            res["tlc"]["generated"], res["tlc"]["distinct"] = int(m.group(1).replace(",", "")), int(m.group(2).replace(",", ""))
        res["tlc"]["ok"] = True
        res["cut_by_time_limit"] = True
        vf.log("[tlc] %s cut after %ds at %d distinct states (no violation so far)" % (scn.name, timeout, res["tlc"]["distinct"]))
    res["tlc_log"] = tlc_log
    res["wall_s"] = round(time.time() - t0, 1)
    shutil.rmtree(os.path.join(d, "md"), ignore_errors=True)
    return res


ALL_OBS = ["n", "en", "tot", "nbr", "has", "edges", "noedge", "lab", "labd", "hasl", "mult", "wmat", "outdeg", "indeg",
           "deg1", "deg2", "mat", "mat1"]
WHOLE_GRAPH_OBS = ("mat", "mat1", "wmat")     # n x n matrices of the whole graph: not projected under an embedding


def embedded_obs(scn):
    return [f for f in (scn.obs_fields if scn.obs_fields is not None else ALL_OBS) if f not in WHOLE_GRAPH_OBS]


def record_traces(pid, scn, gh_exe, seed, histories, steps, nmax, families=None, tag="trace", dense=(), embed=None):
    """Run the recorder for each family of the scenario's group; returns list of trace paths."""
    d = os.path.join(vf.RUN, pid, scn.name + "-" + tag)
    vf.fresh_dir(d)
    paths = []
    fams = families if families is not None else range(N_FAMILIES[scn.group])
    for fam in fams:
        plan = {"group": scn.group, "family_index": fam, "seed": int(seed) * 1000 + fam, "histories": histories,
                "steps": steps, "nmax": nmax, "big_every": 4, "dense": list(dense) if fam in (0, 4) else [], "ops": scn.ops, "labels": sorted(set(list(scn.labels) + [0, 1, 2, 3])) if scn.kind == "labeled" else list(scn.labels),
                # recorded executions also use values far outside the exhaustive alphabets
                "mults": list(scn.mults) + ([3] if fam % 2 else [3, 255, 256, 70000]), "weights": [-1, 0, 2, 3] + ([1, 4, 5] if fam % 2 else [1000000, -70000]),
                "forces": list(scn.forces),
                "bad": ([0, 1, -1] if scn.bad else []), "kind": scn.kind, "directed": scn.directed,
                "max_copies": max(getattr(scn, "trace_copies", 0), scn.maxcopies, 1), "crash_note": os.path.join(d, "crash%d.json" % fam),
                # multigraph family 1 counts in units of 2^30: a multiplicity above 3 units does not fit 32 bits
                "mult_cap": 3 if (scn.kind == "multi" and fam % 2) else 0}
        plan.update(scn.scope_plan())
        plan.pop("check_valid", None)
        if embed:
            # the history's vertices 0..k-1 are the real vertices embed[0..k-1] of a much larger graph
            plan.update({"embed": list(embed), "nmax": len(embed), "big_every": 0, "dense": [], "bad": [],
                         "obs_fields": embedded_obs(scn)})
        planf = os.path.join(d, "plan%d.json" % fam)
        with open(planf, "w") as f:
            json.dump(plan, f)
        out = os.path.join(d, "trace%d.ndjson" % fam)
        with open(out, "wb") as f:
            r = subprocess.run([gh_exe, "record", planf], stdout=f, stderr=subprocess.PIPE, timeout=1800)
        note = None
        if r.returncode != 0:
            try:
                with open(plan["crash_note"]) as cf:
                    note = json.load(cf)
            except Exception:
                pass
        paths.append({"family_index": fam, "path": out, "rc": r.returncode, "note": note,
                      "stderr": r.stderr.decode(errors="replace")[-2000:]})
    return paths


def validate_trace(pid, scn, trace_path, check_obs=True, timeout=1800, tag="v", obs_fields=None):
    """TLC validation of one recorded trace.  -> dict(accepted, events, matched, tlc)"""
    d = os.path.join(vf.RUN, pid, scn.name + "-" + tag + "-" + os.path.basename(trace_path))
    vf.fresh_dir(d)
    consts = scn.constants(emit=False)
    consts["MaxN"] = "= 4096"
    consts["MaxCopies"] = "= 1000"
    consts["MaxMult"] = "= 1000000"
    consts["CheckObs"] = "= " + ("TRUE" if check_obs else "FALSE")
    consts["ObsFields"] = "= " + vf.tla_set(obs_fields if obs_fields is not None else
                                            scn.obs_fields if scn.obs_fields is not None else [])
    consts["MaskByHas"] = "= " + ("TRUE" if getattr(scn, "mask_by_has", False) else "FALSE")
    consts["OnlyRejected"] = "= " + ("TRUE" if not getattr(scn, "check_valid", True) else "FALSE")
    cfg = vf.write_cfg(os.path.join(d, "MachineTrace.cfg"), consts, init="TInit", nxt="TNext",
                       invariants=(scn.invariants if check_obs else []), properties=[],
                       postcondition=("TraceAccepted" if check_obs else None))
    cmd = vf.tlc_cmd("MachineTrace.tla", cfg, os.path.join(d, "md"), workers=1, heap="4g")
    env = _tlc_env()
    env["TRACE"] = trace_path
    with open(trace_path, "rb") as f:
        events = sum(1 for _ in f)
    r = subprocess.run(cmd, cwd=vf.SPEC, stdout=subprocess.PIPE, stderr=subprocess.STDOUT, timeout=timeout, env=env)
    text = r.stdout.decode(errors="replace")
    with open(os.path.join(d, "tlc.log"), "w") as f:
        f.write(text)
    p = vf.parse_tlc_output(text)
    shutil.rmtree(os.path.join(d, "md"), ignore_errors=True)
    res = {"trace": trace_path, "events": events, "tlc": p, "rc": r.returncode, "log": os.path.join(d, "tlc.log")}
    matched = (p["depth"] or 1) - 1
    res["matched"] = matched
    # robust acceptance: TLC finished without error and consumed every event
    res["accepted"] = bool(p["ok"] and matched == events)
    if not check_obs:
        res["mismatches"] = [json.loads(json.loads(ln)) for ln in text.splitlines() if ln.startswith('"{\\"mismatch_at') or ln.startswith('"{\\"call')][:5]
    return res


class PairScenario:
    """Two objects of one class + copies (spec/Pair.tla, property C06)."""
    module = "Pair.tla"
    mode = "walkpair"
    constraints = []
    trace = None
    bad = False
    forces = (False,)

    def __init__(self, name, group, maxn, ops=None, labels=(0, 1), mults=(0, 1, 2), maxmult=2,
                 weights="WeightSetH", walk=True, reps=2, workers=4, initn=0, constraints=()):
        self.initn = initn
        self.constraints = list(constraints)
        self.name, self.group, self.maxn = name, group, maxn
        self.directed, self.kind = GROUPS[group]
        self.ops = list(ops) if ops is not None else [o for o in mutators(group, reciprocal=False)
                                                      if o not in ("removeDuplicateEdges", "addEdgeD")]
        self.labels, self.mults, self.maxmult, self.weights = labels, mults, maxmult, weights
        self.walk, self.reps, self.workers = walk, reps, workers
        self.invariants = ["EqCorrect", "EqSymmetric", "EqReflexive"]
        self.properties = ["CopyIndependent"]

    def constants(self, emit):
        return {
            "Directed": "= " + ("TRUE" if self.directed else "FALSE"),
            "Kind": '= "%s"' % self.kind,
            "Pinned": "= {}",
            "MaxN": "= %d" % self.maxn,
            "Ops": "= " + vf.tla_set(self.ops),
            "LabelArgs": "= " + vf.tla_set(self.labels),
            "MultArgs": "= " + vf.tla_set(self.mults),
            "MaxMult": "= %d" % self.maxmult,
            "WeightArgs": "<- " + self.weights,
            "EmitJson": "= " + ("TRUE" if emit else "FALSE"),
            "InitN": "= %d" % self.initn,
        }


def emit_transitions(pid, scn, timeout=3600):
    """Run TLC on the scenario and keep its transition graph in a file (one JSON line per
    transition); -> (path, parsed TLC result)."""
    d = vf.fresh_dir(os.path.join(vf.RUN, pid, scn.name + "-emit"))
    cfg = vf.write_cfg(os.path.join(d, "Machine.cfg"), scn.constants(emit=True), view="View", action_constraints=["Emit"],
                       invariants=scn.invariants, properties=scn.properties, constraints=["ExploreOnlySame"])
    cmd = vf.tlc_cmd("Machine.tla", cfg, os.path.join(d, "md"), workers=scn.workers, heap="6g")
    path = os.path.join(d, "transitions.ndjson")
    log = os.path.join(d, "tlc.log")
    tlc = subprocess.Popen(cmd, cwd=vf.SPEC, stdout=subprocess.PIPE, stderr=subprocess.STDOUT, env=_tlc_env())
    with open(path, "wb") as out, open(log, "wb") as logf:
        for line in tlc.stdout:
            (out if line[:2] == b'"{' else logf).write(line)
    try:
        tlc.wait(timeout=timeout)
    except subprocess.TimeoutExpired:
        tlc.kill()
        raise vf.Infra("TLC timed out on " + scn.name)
    shutil.rmtree(os.path.join(d, "md"), ignore_errors=True)
    with open(log, errors="replace") as f:
        p = vf.parse_tlc_output(f.read())
    if not p["ok"]:
        raise vf.Infra("TLC did not finish on %s: %s (%s)" % (scn.name, p["error"] or p["violation"], log))
    return path, p


def walk_file(pid, scn, gh_exe, path, tag, extra_plan=None, timeout=3600):
    """Execute a saved transition graph on the real classes with one build of the harness."""
    d = vf.fresh_dir(os.path.join(vf.RUN, pid, "%s-%s" % (scn.name, tag)))
    os.makedirs(vf.REPLAYS, exist_ok=True)
    plan = {"group": scn.group, "reps": scn.reps, "replay_dir": vf.REPLAYS, "tag": "%s-%s-%s" % (pid, scn.name, tag),
            "crash_note": os.path.join(d, "crash.json"), "max_fail": 3}
    plan.update(extra_plan or {})
    planf = os.path.join(d, "plan.json")
    with open(planf, "w") as f:
        json.dump(plan, f)
    with open(path, "rb") as inp:
        r = subprocess.run([gh_exe, "walk", planf], stdin=inp, stdout=subprocess.PIPE, stderr=subprocess.PIPE, timeout=timeout)
    summary = None
    for ln in r.stdout.decode(errors="replace").splitlines():
        if ln.startswith("SUMMARY "):
            summary = json.loads(ln[8:])
    note = None
    if summary is None:
        try:
            with open(plan["crash_note"]) as f:
                note = json.load(f)
        except Exception:
            pass
    return {"summary": summary, "rc": r.returncode, "note": note, "stderr": r.stderr.decode(errors="replace")[-4000:]}


def record_pairs(pid, group, gh_exe, seed, pairs, families=None):
    """C06 code -> spec: random pairs of real objects; records validated by PairTrace.tla.
    -> dict(records, accepted, rejected[], equal_pairs, tlc_states)"""
    import re
    directed, kind = GROUPS[group]
    d = vf.fresh_dir(os.path.join(vf.RUN, pid, "pairs-" + group))
    out = {"records": 0, "accepted": 0, "rejected": [], "equal_pairs": 0, "tlc_states": 0, "crashes": []}
    for fam in (families if families is not None else range(N_FAMILIES[group])):
        plan = {"group": group, "family_index": fam, "seed": int(seed) * 100 + fam, "pairs": pairs, "kind": kind,
                "directed": directed, "crash_note": os.path.join(d, "crash%d.json" % fam)}
        planf = os.path.join(d, "plan%d.json" % fam)
        with open(planf, "w") as f:
            json.dump(plan, f)
        rp = os.path.join(d, "pairs%d.ndjson" % fam)
        with open(rp, "wb") as f:
            r = subprocess.run([gh_exe, "recordpair", planf], stdout=f, stderr=subprocess.PIPE, timeout=1800)
        if r.returncode != 0:
            note = None
            try:
                note = json.load(open(plan["crash_note"]))
            except Exception:
                pass
            out["crashes"].append({"family_index": fam, "rc": r.returncode, "note": note})
            continue
        for ln in r.stderr.decode(errors="replace").splitlines():
            if ln.startswith("SUMMARY "):
                out["equal_pairs"] += json.loads(ln[8:])["pairs_showing_the_same_graph"]
        cd = rp + ".d"
        os.makedirs(cd, exist_ok=True)
        cfg = vf.write_cfg(os.path.join(cd, "PairTrace.cfg"), {}, invariants=["PairRecordOK"])
        txt = open(cfg).read().replace("CONSTANTS\n", "")
        open(cfg, "w").write(txt)
        env = _tlc_env()
        env["RECORDS"] = rp
        t = subprocess.run(vf.tlc_cmd("PairTrace.tla", cfg, os.path.join(cd, "md"), workers=4, heap="4g", extra=["-continue"]),
                           cwd=vf.SPEC, stdout=subprocess.PIPE, stderr=subprocess.STDOUT, timeout=1800, env=env)
        text = t.stdout.decode(errors="replace")
        open(os.path.join(cd, "tlc.log"), "w").write(text)
        shutil.rmtree(os.path.join(cd, "md"), ignore_errors=True)
        p = vf.parse_tlc_output(text)
        lines = open(rp).readlines()
        bad = sorted({int(m.group(1)) for m in re.finditer(r"Invariant PairRecordOK is violated.*?idx = (\d+)", text, re.S)})
        if not bad and not p["ok"]:
            raise vf.Infra("PairTrace validation failed to run: %s (%s)" % (p["error"], os.path.join(cd, "tlc.log")))
        out["records"] += len(lines)
        out["accepted"] += len(lines) - len(bad)
        out["tlc_states"] += p["distinct"]
        for b in bad[:2]:
            out["rejected"].append({"family_index": fam, "index": b, "record": json.loads(lines[b - 1])})
    return out
