"""Runs over spec/Derived.tla (cases enumerated by TLC, executed by the C++ algorithm
harness `ah`) and spec/SearchTrace.tla (records written by the harness, validated by TLC)."""
import concurrent.futures
import json
import os
import shutil
import subprocess
import time

import vf

DERIVED_INVARIANTS = ["ReverseOK", "ToDirectedOK", "ToUndirectedOK", "EdgeListOK", "SubgraphOK"]


def _env():
    env = dict(os.environ)
    env.pop("JAVA_TOOL_OPTIONS", None)
    return env


class Cases:
    """One enumeration of Derived.tla."""

    def __init__(self, name, kind, mode, maxn, attrs=(0,), maxlen=0, workers=4, emit=True, families=None,
                 attrs_def=None):
        self.name, self.kind, self.mode, self.maxn = name, kind, mode, maxn
        self.attrs, self.maxlen, self.workers, self.emit = attrs, maxlen, workers, emit
        self.families = families
        self.attrs_def = attrs_def

    def constants(self):
        return {"Kind": '= "%s"' % self.kind, "Pinned": "= {}", "Mode": '= "%s"' % self.mode,
                "MaxN": "= %d" % self.maxn,
                "Attrs": ("<- " + self.attrs_def) if self.attrs_def else "= " + vf.tla_set(self.attrs),
                "MaxLen": "= %d" % self.maxlen, "EmitJson": "= " + ("TRUE" if self.emit else "FALSE")}


class IterCases:
    """One enumeration of EdgeIter.tla (C08)."""
    module = "EdgeIter.tla"
    mode = "iter"
    kind = "nolabel"

    def __init__(self, name, directed, maxn, maxins=0, workers=4, emit=True, families=None, pinned=()):
        self.name, self.directed, self.maxn, self.maxins = name, directed, maxn, maxins
        self.workers, self.emit, self.families, self.pinned = workers, emit, families, pinned

    def constants(self):
        return {"Directed": "= " + ("TRUE" if self.directed else "FALSE"), "MaxN": "= %d" % self.maxn,
                "MaxIns": "= %d" % self.maxins, "Pinned": "= " + vf.tla_set(self.pinned),
                "EmitJson": "= " + ("TRUE" if self.emit else "FALSE")}

    invariants = ["NeverOutOfRange", "Terminates", "CursorValid", "YieldsExactly", "PrefixAlways", "BeginIsEndIffNoEdge"]
    action_constraints = ["Emit"]


class BinCases:
    """One enumeration of BinFormat.tla (C14, C15)."""
    module = "BinFormat.tla"
    invariants = ["LengthOK", "RoundTripOK", "PermutationOK", "DiskIsLE", "TruncationOK", "EmitInv"]
    action_constraints = ["EmitCut"]
    families = None

    def __init__(self, name, directed, width, mode, maxn=3, maxedges=2, labels=(0, 258), workers=4, emit=True):
        self.name, self.directed, self.width, self.mode = name, directed, width, mode
        self.maxn, self.maxedges, self.labels, self.workers, self.emit = maxn, maxedges, labels, workers, emit
        self.kind = "nolabel" if width == 0 else "labeled"

    def constants(self):
        return {"Directed": "= " + ("TRUE" if self.directed else "FALSE"), "Kind": '= "%s"' % self.kind, "Pinned": "= {}",
                "MaxN": "= %d" % self.maxn, "MaxEdges": "= %d" % self.maxedges, "LabelWidth": "= %d" % self.width,
                "LabelVals": "= " + vf.tla_set(self.labels), "Mode": '= "%s"' % self.mode,
                "EmitJson": "= " + ("TRUE" if self.emit else "FALSE")}


class TextCases:
    """One enumeration of TextFormat.tla (C13, C15)."""
    module = "TextFormat.tla"
    invariants = ["RoundTripOK", "WhitespaceOK", "NamesOK", "EmitInv"]
    action_constraints = []
    families = None

    def __init__(self, name, directed, codec, mode, maxn=3, maxedges=2, labels=(0, 1, 2), lineset="tiny", workers=4,
                 emit=True):
        self.name, self.directed, self.codec, self.mode = name, directed, codec, mode
        self.maxn, self.maxedges, self.labels, self.lineset = maxn, maxedges, labels, lineset
        self.workers, self.emit = workers, emit
        self.kind = "nolabel" if codec == "none" else "labeled"

    def constants(self):
        return {"Directed": "= " + ("TRUE" if self.directed else "FALSE"), "Kind": '= "%s"' % self.kind, "Pinned": "= {}",
                "MaxN": "= %d" % self.maxn, "MaxEdges": "= %d" % self.maxedges, "Codec": '= "%s"' % self.codec,
                "LabelVals": "= " + vf.tla_set(self.labels), "Mode": '= "%s"' % self.mode,
                "LineSet": '= "%s"' % self.lineset, "EmitJson": "= " + ("TRUE" if self.emit else "FALSE")}


def run_cases(pid, cs, ah_exe, seed=1, timeout=3600, extra_plan=None):
    d = vf.fresh_dir(os.path.join(vf.RUN, pid, cs.name))
    module = getattr(cs, "module", "Derived.tla")
    if module == "Derived.tla":
        cfg = vf.write_cfg(os.path.join(d, "Derived.cfg"), cs.constants(), action_constraints=[],
                           invariants=DERIVED_INVARIANTS + (["EmitInv"] if cs.emit else []))
    else:
        cfg = vf.write_cfg(os.path.join(d, module.replace(".tla", ".cfg")), cs.constants(),
                           action_constraints=cs.action_constraints, invariants=cs.invariants)
    cmd = vf.tlc_cmd(module, cfg, os.path.join(d, "md"), workers=cs.workers, heap="6g")
    res = {"cases": cs.name, "kind": getattr(cs, "kind", ""), "mode": getattr(cs, "mode", ""), "maxn": cs.maxn}
    t0 = time.time()
    tlc_log = os.path.join(d, "tlc.log")
    records = os.path.join(d, "records.ndjson")
    if cs.emit:
        os.makedirs(vf.REPLAYS, exist_ok=True)
        plan = {"replay_dir": vf.REPLAYS, "tag": "%s-%s-algo" % (pid, cs.name), "max_fail": 3, "seed": int(seed),
                "crash_note": os.path.join(d, "crash.json"), "records": records}
        plan["tmp"] = vf.fresh_dir(os.path.join(d, "tmp"))
        if cs.families:
            plan["families"] = cs.families
        if extra_plan:
            plan.update(extra_plan)
        planf = os.path.join(d, "plan.json")
        with open(planf, "w") as f:
            json.dump(plan, f)
        tlc = subprocess.Popen(cmd, cwd=vf.SPEC, stdout=subprocess.PIPE, stderr=subprocess.STDOUT, env=_env())
        ah = subprocess.Popen([ah_exe, planf], stdin=subprocess.PIPE, stdout=subprocess.PIPE, stderr=subprocess.PIPE)
        with open(tlc_log, "wb") as logf:
            try:
                for line in tlc.stdout:
                    if line[:2] == b'"{':
                        try:
                            ah.stdin.write(line)
                        except BrokenPipeError:
                            tlc.kill()
                            break
                    else:
                        logf.write(line)
            finally:
                try:
                    ah.stdin.close()
                except Exception:
                    pass
                ah.stdin = None
        try:
            tlc.wait(timeout=timeout)
        except subprocess.TimeoutExpired:
            tlc.kill()
            raise vf.Infra("TLC timed out on " + cs.name)
        out, err = ah.communicate(timeout=timeout)
        res["ah_rc"] = ah.returncode
        summary = None
        for ln in out.decode(errors="replace").splitlines():
            if ln.startswith("SUMMARY "):
                summary = json.loads(ln[8:])
        res["ah"] = summary
        if summary is None:
            note = None
            try:
                with open(os.path.join(d, "crash.json")) as f:
                    note = json.load(f)
            except Exception:
                pass
            res["crash"] = {"rc": ah.returncode, "note": note, "stderr": err.decode(errors="replace")[-3000:]}
        res["records"] = records if os.path.exists(records) and os.path.getsize(records) > 0 else None
    else:
        with open(tlc_log, "wb") as logf:
            try:
                subprocess.run(cmd, cwd=vf.SPEC, stdout=logf, stderr=subprocess.STDOUT, timeout=timeout, env=_env())
            except subprocess.TimeoutExpired:
                raise vf.Infra("TLC timed out on " + cs.name)
    with open(tlc_log, errors="replace") as f:
        res["tlc"] = vf.parse_tlc_output(f.read())
    res["tlc_log"] = tlc_log
    res["wall_s"] = round(time.time() - t0, 1)
    shutil.rmtree(os.path.join(d, "md"), ignore_errors=True)
    return res


def run_ah_on_file(pid, name, cases_path, ah_exe, seed=1, timeout=3600, extra_plan=None):
    """Cases not enumerated by TLC (random larger graphs, path-explosive families)."""
    d = vf.fresh_dir(os.path.join(vf.RUN, pid, name))
    os.makedirs(vf.REPLAYS, exist_ok=True)
    records = os.path.join(d, "records.ndjson")
    plan = {"replay_dir": vf.REPLAYS, "tag": "%s-%s-algo" % (pid, name), "max_fail": 3, "seed": int(seed),
            "crash_note": os.path.join(d, "crash.json"), "records": records,
            "tmp": vf.fresh_dir(os.path.join(d, "tmp"))}
    if extra_plan:
        plan.update(extra_plan)
    stack_kb = plan.pop("_stack_kb", None)
    planf = os.path.join(d, "plan.json")
    with open(planf, "w") as f:
        json.dump(plan, f)
    t0 = time.time()

    def small_stack():
        # the harness process gets a small stack: work whose stack depth grows with the input
        # (recursion per hop, per skipped entry, ...) fails at moderate sizes
        import resource
        resource.setrlimit(resource.RLIMIT_STACK, (stack_kb * 1024, stack_kb * 1024))
    with open(cases_path, "rb") as inp:
        r = subprocess.run([ah_exe, planf], stdin=inp, stdout=subprocess.PIPE, stderr=subprocess.PIPE, timeout=timeout,
                           preexec_fn=small_stack if stack_kb else None)
    res = {"cases": name, "ah_rc": r.returncode, "ah": None}
    for ln in r.stdout.decode(errors="replace").splitlines():
        if ln.startswith("SUMMARY "):
            res["ah"] = json.loads(ln[8:])
    if res["ah"] is None:
        note = None
        try:
            with open(os.path.join(d, "crash.json")) as f:
                note = json.load(f)
        except Exception:
            pass
        res["crash"] = {"rc": r.returncode, "note": note, "stderr": r.stderr.decode(errors="replace")[-3000:]}
    res["records"] = records if os.path.exists(records) and os.path.getsize(records) > 0 else None
    res["tlc"] = {"distinct": 0, "generated": 0, "ok": True, "violation": None, "error": None, "depth": None}
    res["wall_s"] = round(time.time() - t0, 1)
    return res


def validate_records(pid, name, records_path, chunk=4000, timeout=3600, workers=4, parallel=4,
                     invariants=("AllResultsOK",)):
    """TLC validation (SearchTrace.tla) of a record file, in parallel chunks.
    -> dict(records, accepted, rejected:[{index, record}], tlc_states)"""
    d = vf.fresh_dir(os.path.join(vf.RUN, pid, name + "-validate"))
    with open(records_path) as f:
        lines = f.readlines()
    chunks = []
    for k in range(0, len(lines), chunk):
        p = os.path.join(d, "chunk%d.ndjson" % (k // chunk))
        with open(p, "w") as f:
            f.writelines(lines[k:k + chunk])
        chunks.append((p, k))

    def one(item):
        path, offset = item
        cd = path + ".d"
        os.makedirs(cd, exist_ok=True)
        cfg = vf.write_cfg(os.path.join(cd, "SearchTrace.cfg"), {}, invariants=list(invariants))
        # no CONSTANTS section when empty
        with open(cfg) as f:
            txt = f.read().replace("CONSTANTS\n", "")
        with open(cfg, "w") as f:
            f.write(txt)
        cmd = vf.tlc_cmd("SearchTrace.tla", cfg, os.path.join(cd, "md"), workers=workers, heap="4g",
                         extra=["-continue"])
        env = _env()
        env["RECORDS"] = path
        r = subprocess.run(cmd, cwd=vf.SPEC, stdout=subprocess.PIPE, stderr=subprocess.STDOUT, timeout=timeout, env=env)
        text = r.stdout.decode(errors="replace")
        with open(os.path.join(cd, "tlc.log"), "w") as f:
            f.write(text)
        shutil.rmtree(os.path.join(cd, "md"), ignore_errors=True)
        bad = []
        import re
        for m in re.finditer(r"Invariant (?:AllResultsOK|AllScansOK) is violated.*?idx = (\d+)", text, re.S):
            bad.append(int(m.group(1)))
        p = vf.parse_tlc_output(text)
        fatal = None
        if not p["distinct"] and not bad:
            fatal = (p["error"] or "TLC produced no states") + " (%s)" % os.path.join(cd, "tlc.log")
        elif p["error"] and not bad and not p["ok"]:
            fatal = p["error"] + " (%s)" % os.path.join(cd, "tlc.log")
        return {"offset": offset, "bad": sorted(set(bad)), "distinct": p["distinct"], "fatal": fatal}

    with concurrent.futures.ThreadPoolExecutor(max_workers=parallel) as ex:
        outs = list(ex.map(one, chunks))
    rejected = []
    for o in outs:
        if o["fatal"]:
            raise vf.Infra("record validation failed to run: " + o["fatal"])
        for b in o["bad"]:
            rejected.append({"index": o["offset"] + b, "record": json.loads(lines[o["offset"] + b - 1])})
    return {"records": len(lines), "accepted": len(lines) - len(rejected), "rejected": rejected,
            "tlc_states": sum(o["distinct"] for o in outs)}


def run_search_algo(pid, name, algo_name, directed, maxn, weights=(1,), variant="fixed", workers=8, timeout=3600,
                    heap="8g"):
    """Model check one algorithm model of SearchAlgo.tla on every graph within the bounds."""
    d = vf.fresh_dir(os.path.join(vf.RUN, pid, "algo-" + name))
    consts = {"Algo": '= "%s"' % algo_name, "Directed": "= " + ("TRUE" if directed else "FALSE"),
              "MaxN": "= %d" % maxn, "Weights": "= " + vf.tla_set(weights), "Variant": '= "%s"' % variant}
    cfg = vf.write_cfg(os.path.join(d, "SearchAlgo.cfg"), consts, view="View",
                       invariants=["ScanBound", "WorkBound", "BfsResultOK", "AllPredResultOK", "DijkstraResultOK"])
    cmd = vf.tlc_cmd("SearchAlgo.tla", cfg, os.path.join(d, "md"), workers=workers, heap=heap)
    t0 = time.time()
    log = os.path.join(d, "tlc.log")
    timed_out = False
    with open(log, "wb") as f:
        try:
            subprocess.run(cmd, cwd=vf.SPEC, stdout=f, stderr=subprocess.STDOUT, timeout=timeout, env=_env())
        except subprocess.TimeoutExpired:
            timed_out = True
    with open(log, errors="replace") as f:
        text = f.read()
    p = vf.parse_tlc_output(text)
    shutil.rmtree(os.path.join(d, "md"), ignore_errors=True)
    if timed_out and not p["violation"]:
        # the breadth-first search was cut by the time limit without having found a violation: what
        # was explored counts as explored (the numbers of the last progress line), not as exhaustive
        import re
        m = None
        for m in re.finditer(r"Progress\(\d+\).*?: ([\d,]+) states generated.*?, ([\d,]+) distinct states found", text):
            pass
        if m:
            p["generated"], p["distinct"] = int(m.group(1).replace(",", "")), int(m.group(2).replace(",", ""))
        p["ok"], p["incomplete"] = True, True
        vf.log("[tlc] SearchAlgo %s cut after %ds at %d distinct states (no violation so far)" % (name, timeout, p["distinct"]))
    return {"cases": "SearchAlgo:" + name, "tlc": p, "tlc_log": log, "wall_s": round(time.time() - t0, 1), "ah": None,
            "incomplete": timed_out}


def validate_io_records(pid, name, records_path, timeout=3600):
    """TLC validation of the large-file records (BinTrace.tla / TextTrace.tla), grouped by the
    constants the specification needs (direction, label width / text codec)."""
    import re
    d = vf.fresh_dir(os.path.join(vf.RUN, pid, name + "-iovalidate"))
    groups = {}
    with open(records_path) as f:
        for line in f:
            r = json.loads(line)
            key = (r["k"], r["dir"], r.get("w", r.get("codec")))
            groups.setdefault(key, []).append(line)
    jobs = []
    for (k, direc, x), lines in groups.items():
        gp = os.path.join(d, "%s-%s-%s.ndjson" % (k, "d" if direc else "u", x))
        with open(gp, "w") as f:
            f.writelines(lines)
        jobs.append((k, direc, x, gp, lines))

    def one(job):
        k, direc, x, gp, lines = job
        cd = gp + ".d"
        os.makedirs(cd, exist_ok=True)
        if k == "bin_big":
            consts = BinCases("v", direc, int(x), "roundtrip", emit=False).constants()
            module, inv = "BinTrace.tla", "BigBinOK"
        else:
            consts = TextCases("v", direc, x, "roundtrip", emit=False, labels=(0, 1, 2, 3)).constants()
            module, inv = "TextTrace.tla", "BigTextOK"
        cfg = vf.write_cfg(os.path.join(cd, module.replace(".tla", ".cfg")), consts, init="TInit", nxt="TNext", invariants=[inv])
        env = _env()
        env["RECORDS"] = gp
        r = subprocess.run(vf.tlc_cmd(module, cfg, os.path.join(cd, "md"), workers=4, heap="6g", extra=["-continue"],
                                      jvm=["-Xss64m"]),
                           cwd=vf.SPEC, stdout=subprocess.PIPE, stderr=subprocess.STDOUT, timeout=timeout, env=env)
        text = r.stdout.decode(errors="replace")
        with open(os.path.join(cd, "tlc.log"), "w") as f:
            f.write(text)
        shutil.rmtree(os.path.join(cd, "md"), ignore_errors=True)
        bad = sorted({int(m.group(1)) for m in re.finditer(r"Invariant %s is violated.*?idx = (\d+)" % inv, text, re.S)})
        p = vf.parse_tlc_output(text)
        fatal = None
        if not bad and not p["ok"]:
            fatal = (p["error"] or "TLC did not finish") + " (%s)" % os.path.join(cd, "tlc.log")
        return {"group": "%s %s %s" % (k, "directed" if direc else "undirected", x), "records": len(lines), "bad": bad,
                "fatal": fatal, "lines": lines, "distinct": p["distinct"]}

    with concurrent.futures.ThreadPoolExecutor(max_workers=4) as ex:
        outs = list(ex.map(one, jobs))
    rejected = []
    for o in outs:
        if o["fatal"]:
            raise vf.Infra("large-file record validation failed to run: " + o["fatal"])
        for b in o["bad"]:
            rec = json.loads(o["lines"][b - 1])
            for big in ("bytes", "lines", "edges", "loaded_edges"):
                if big in rec and len(rec[big]) > 40:
                    rec[big] = rec[big][:40] + ["... (%d entries)" % len(rec[big])]
            rejected.append({"index": b, "group": o["group"], "record": rec})
    total = sum(o["records"] for o in outs)
    return {"records": total, "accepted": total - len(rejected), "rejected": rejected,
            "tlc_states": sum(o["distinct"] for o in outs), "groups": [o["group"] for o in outs]}


def validate_derived_records(pid, name, records_path, timeout=3600):
    """TLC validation (DerivedTrace.tla) of records of the constructions on large graphs; the remap
    records among them go to SearchTrace.tla."""
    import re
    d = vf.fresh_dir(os.path.join(vf.RUN, pid, name + "-dvalidate"))
    groups, remaps = {}, []
    with open(records_path) as f:
        for line in f:
            r = json.loads(line)
            if r["k"] == "remap":
                remaps.append(line)
            else:
                groups.setdefault(r.get("kind", "labeled") if r["k"] == "conv_edgelist" else "labeled", []).append(line)
    jobs = []
    for kind, lines in groups.items():
        gp = os.path.join(d, "conv-%s.ndjson" % kind)
        with open(gp, "w") as f:
            f.writelines(lines)
        jobs.append((kind, gp, lines))

    def one(job):
        kind, gp, lines = job
        cd = gp + ".d"
        os.makedirs(cd, exist_ok=True)
        consts = Cases("v", kind, "reverse", 1, emit=False).constants()
        cfg = vf.write_cfg(os.path.join(cd, "DerivedTrace.cfg"), consts, init="TInit", nxt="TNext", invariants=["BigDerivedOK"])
        env = _env()
        env["RECORDS"] = gp
        r = subprocess.run(vf.tlc_cmd("DerivedTrace.tla", cfg, os.path.join(cd, "md"), workers=4, heap="6g", extra=["-continue"],
                                      jvm=["-Xss64m"]),
                           cwd=vf.SPEC, stdout=subprocess.PIPE, stderr=subprocess.STDOUT, timeout=timeout, env=env)
        text = r.stdout.decode(errors="replace")
        with open(os.path.join(cd, "tlc.log"), "w") as f:
            f.write(text)
        shutil.rmtree(os.path.join(cd, "md"), ignore_errors=True)
        bad = sorted({int(m.group(1)) for m in re.finditer(r"Invariant BigDerivedOK is violated.*?idx = (\d+)", text, re.S)})
        p = vf.parse_tlc_output(text)
        fatal = None
        if not bad and not p["ok"]:
            fatal = (p["error"] or "TLC did not finish") + " (%s)" % os.path.join(cd, "tlc.log")
        return {"kind": kind, "records": len(lines), "bad": bad, "fatal": fatal, "lines": lines, "distinct": p["distinct"]}

    with concurrent.futures.ThreadPoolExecutor(max_workers=4) as ex:
        outs = list(ex.map(one, jobs))
    rejected = []
    for o in outs:
        if o["fatal"]:
            raise vf.Infra("validation of the construction records failed to run: " + o["fatal"])
        for b in o["bad"]:
            rejected.append({"index": b, "record": json.loads(o["lines"][b - 1])})
    total = sum(o["records"] for o in outs)
    states = sum(o["distinct"] for o in outs)
    if remaps:
        rp = os.path.join(d, "remaps.ndjson")
        with open(rp, "w") as f:
            f.writelines(remaps)
        v = validate_records(pid, name + "-remaps", rp)
        total += v["records"]
        states += v["tlc_states"]
        rejected += v["rejected"]
    return {"records": total, "accepted": total - len(rejected), "rejected": rejected, "tlc_states": states}


def emit_cases(pid, cs, timeout=3600):
    """Run TLC on one enumeration and keep the printed cases in a file; -> (path, parsed TLC result)."""
    d = vf.fresh_dir(os.path.join(vf.RUN, pid, cs.name + "-emit"))
    module = getattr(cs, "module", "Derived.tla")
    if module == "Derived.tla":
        cfg = vf.write_cfg(os.path.join(d, "Derived.cfg"), cs.constants(), action_constraints=[],
                           invariants=DERIVED_INVARIANTS + ["EmitInv"])
    else:
        cfg = vf.write_cfg(os.path.join(d, module.replace(".tla", ".cfg")), cs.constants(),
                           action_constraints=cs.action_constraints, invariants=cs.invariants)
    cmd = vf.tlc_cmd(module, cfg, os.path.join(d, "md"), workers=cs.workers, heap="6g")
    path = os.path.join(d, "cases.ndjson")
    log = os.path.join(d, "tlc.log")
    tlc = subprocess.Popen(cmd, cwd=vf.SPEC, stdout=subprocess.PIPE, stderr=subprocess.STDOUT, env=_env())
    with open(path, "wb") as out, open(log, "wb") as logf:
        for line in tlc.stdout:
            (out if line[:2] == b'"{' else logf).write(line)
    try:
        tlc.wait(timeout=timeout)
    except subprocess.TimeoutExpired:
        tlc.kill()
        raise vf.Infra("TLC timed out on " + cs.name)
    shutil.rmtree(os.path.join(d, "md"), ignore_errors=True)
    with open(log, errors="replace") as f:
        p = vf.parse_tlc_output(f.read())
    if not p["ok"]:
        raise vf.Infra("TLC did not finish on %s: %s (%s)" % (cs.name, p["error"] or p["violation"], log))
    return path, p
