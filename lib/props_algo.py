"""C09, C10, C11, C12, C19 and the algorithm half of C07."""
import concurrent.futures
import json
import os
import random

import algo
import vf
from algo import Cases

NOLABEL = ["Labeled*Graph<NoLabel>"]
LABELED = ["Labeled*Graph<%s>" % t for t in ("int", "unsigned", "double", "char", "string", "struct")]
DETERMINISTIC_MODES = ("reverse", "todirected", "toundirected", "edgelist", "subgraphD", "subgraphU")


def with_families(cs):
    if cs.families is None and cs.mode in DETERMINISTIC_MODES:
        if cs.kind == "nolabel":
            cs.families = NOLABEL
        elif cs.kind == "labeled":
            cs.families = LABELED
    return cs


# ------------------------------------------------------------------ case files not enumerated by TLC
def enc_graph(n, edges, directed, weights=None):
    """GraphOps!Enc of a duplicate-free graph given as a set of (i,j) (canonical i<=j when undirected)."""
    adj = [[0] * n for _ in range(n)]
    lab = [[-99] * n for _ in range(n)]
    tot = 0
    for (i, j) in edges:
        adj[i][j] = 1
        if not directed:
            adj[j][i] = 1
        if weights is not None:
            a, b = (i, j) if directed or i <= j else (j, i)
            lab[a][b] = weights[(i, j)]
            tot += weights[(i, j)]
    return {"n": n, "adj": adj, "lab": lab, "en": len(edges), "tot": tot}


def random_graph(rng, n, p, directed, loops=True):
    edges = set()
    for i in range(n):
        for j in range(n):
            if not directed and i > j:
                continue
            if i == j and not loops:
                continue
            if rng.random() < p:
                edges.add((i, j))
    return edges


def layered(k, w, directed=True):
    """source -> k layers of w vertices, complete between consecutive layers -> sink: w^k shortest paths."""
    n = 2 + k * w
    vid = lambda l, a: 1 + l * w + a
    edges = set()
    for a in range(w):
        edges.add((0, vid(0, a)))
        edges.add((vid(k - 1, a), n - 1))
    for l in range(k - 1):
        for a in range(w):
            for b in range(w):
                edges.add((vid(l, a), vid(l + 1, b)))
    return n, edges


def grid(r, c):
    n = r * c
    edges = set()
    for i in range(r):
        for j in range(c):
            v = i * c + j
            if j + 1 < c:
                edges.add((v, v + 1))
            if i + 1 < r:
                edges.add((v, v + c))
    return n, edges


def write_search_cases(path, seed, tier, light=False):
    """Random larger graphs (cycles through the source, self-loops, several components,
    ties) and path-explosive families, for the BFS searches and Dijkstra."""
    rng = random.Random(seed)
    out = []
    nrand = 40 if light else 250 if tier == "quick" else 3000
    for k in range(nrand):
        n = rng.randint(5, 12 if tier == "quick" else 16)
        directed = rng.random() < 0.5
        p = rng.choice([0.1, 0.2, 0.35, 0.6])
        e = random_graph(rng, n, p, directed)
        out.append({"k": "search", "dir": directed, "g": enc_graph(n, e, directed), "paths": n <= 9,
                    "sources": sorted(rng.sample(range(n), min(n, 3)))})
        w = {x: rng.choice([0, 0, 1, 1, 2, 3, 5]) if k % 3 else rng.randint(0, 40) for x in e}
        out.append({"k": "dijkstra", "dir": directed, "g": enc_graph(n, e, directed, w),
                    "sources": sorted(rng.sample(range(n), min(n, 3)))})
    # larger graphs with many ties in hop distance and vertex indices beyond 32 / 64: stars and
    # wheels seen from the hub and from a leaf, complete graphs, sparse random graphs
    for n in ([18, 40, 70, 270] if tier == "quick" else [18, 33, 40, 66, 100, 130, 270, 520]):
        star = {(0, v) for v in range(1, n)}
        out.append({"k": "search", "dir": False, "g": enc_graph(n, star, False), "paths": n <= 40, "sources": [0, 1, n - 1]})
        out.append({"k": "search", "dir": True, "g": enc_graph(n, {(n - 1, v) for v in range(n - 1)}, True), "paths": n <= 40,
                    "sources": [n - 1, 0]})
        wheel = star | {(v, v + 1) for v in range(1, n - 1)} | {(1, n - 1)}
        out.append({"k": "search", "dir": False, "g": enc_graph(n, wheel, False), "paths": n <= 20, "sources": [0, 2, n - 1]})
        e = random_graph(rng, n, 2.5 / n, True)
        out.append({"k": "search", "dir": True, "g": enc_graph(n, e, True), "paths": False, "sources": [0, n // 2, n - 1]})
        e = random_graph(rng, n, 2.0 / n, False)
        out.append({"k": "search", "dir": False, "g": enc_graph(n, e, False), "paths": False, "sources": [0, n - 1]})
        w = {x: rng.randint(0, 9) for x in e}
        out.append({"k": "dijkstra", "dir": False, "g": enc_graph(n, e, False, w), "sources": [0, n - 1]})
        chain = {(v, v + 1) for v in range(n - 1)}
        out.append({"k": "search", "dir": True, "g": enc_graph(n, chain, True), "paths": n <= 70, "sources": [0, n // 2]})
    for n in ([17] if tier == "quick" else [17, 24]):
        comp = {(i, j) for i in range(n) for j in range(n) if i < j}
        out.append({"k": "search", "dir": False, "g": enc_graph(n, comp, False), "paths": True, "sources": [0, n - 1]})
    # exponentially many shortest paths: scans must stay within V+E (C19); paths are not
    # enumerated for these (there are w^k of them)
    fams = [(4, 2), (6, 2), (5, 3)] if tier == "quick" else [(4, 2), (8, 2), (12, 2), (16, 2), (12, 3), (8, 4), (20, 2)]
    for (k, w) in fams:
        n, e = layered(k, w)
        for directed in (True, False):
            ee = e if directed else {(min(a, b), max(a, b)) for (a, b) in e}
            out.append({"k": "search", "dir": directed, "g": enc_graph(n, ee, directed), "paths": False,
                        "sources": [0, 1, n - 1], "family": "layered(%d,%d)" % (k, w)})
            for wt in (0, 1):  # all-zero weights: zero-weight cycles when undirected; unit weights: ties
                out.append({"k": "dijkstra", "dir": directed, "g": enc_graph(n, ee, directed, {x: wt for x in ee}),
                            "sources": [0, 1, n - 1], "family": "layered(%d,%d) w=%d" % (k, w, wt)})
    for (r, c) in ([(4, 4), (3, 6)] if tier == "quick" else [(4, 4), (6, 6), (8, 8), (12, 12), (3, 20)]):
        n, e = grid(r, c)
        out.append({"k": "search", "dir": False, "g": enc_graph(n, e, False), "paths": False,
                    "sources": [0, n // 2, n - 1], "family": "grid(%d,%d)" % (r, c)})
        out.append({"k": "search", "dir": True, "g": enc_graph(n, e, True), "paths": False,
                    "sources": [0, n // 2], "family": "grid-dag(%d,%d)" % (r, c)})
        out.append({"k": "dijkstra", "dir": False, "g": enc_graph(n, e, False, {x: rng.choice([0, 1]) for x in e}),
                    "sources": [0, n - 1], "family": "grid(%d,%d) w in {0,1}" % (r, c)})
    # chains of "long direct edge vs. short detour" gadgets: 2^k distinct path lengths to the last
    # hub - the classical worst case of a label-correcting search that pops in a bad order
    for k in ([3, 5, 8] if tier == "quick" else [3, 5, 8, 10, 12]):
        n = 2 * k + 1
        e, w = set(), {}
        for i in range(k):
            sc = 1 << (k - 1 - i)
            hub, det, nxt = 2 * i, 2 * i + 1, 2 * i + 2
            for (a, b, wt) in ((hub, nxt, 4 * sc), (hub, det, 1), (det, nxt, 2 * sc - 1)):
                e.add((a, b))
                w[(a, b)] = wt
        out.append({"k": "dijkstra", "dir": True, "g": enc_graph(n, e, True, w), "sources": [0],
                    "family": "detour-chain(%d)" % k})
        eu = {(min(a, b), max(a, b)) for (a, b) in e}
        out.append({"k": "dijkstra", "dir": False, "g": enc_graph(n, eu, False, {(min(a, b), max(a, b)): w[(a, b)] for (a, b) in e}),
                    "sources": [0, n - 1], "family": "detour-chain-undirected(%d)" % k})
    # improvement-rich inputs: dense graphs in which longer routes are cheaper (weight grows
    # super-linearly with the index distance), so that queued vertices are improved many times
    for n in ([10, 14] if tier == "quick" else [10, 14, 18, 24]):
        for trial in range(3 if tier == "quick" else 8):
            perm = list(range(n))
            rng.shuffle(perm)
            e, w = set(), {}
            for i in range(n):
                for j in range(i + 1, n):
                    if rng.random() < 0.8:
                        a, b = perm[i], perm[j]
                        e.add((a, b))
                        w[(a, b)] = (j - i) ** 2 + rng.randint(0, 2)
            out.append({"k": "dijkstra", "dir": True, "g": enc_graph(n, e, True, w), "sources": [perm[0], perm[1]],
                        "family": "superlinear-dag(%d)" % n})
            eu = {(min(a, b), max(a, b)) for (a, b) in e}
            out.append({"k": "dijkstra", "dir": False, "g": enc_graph(n, eu, False, {(min(a, b), max(a, b)): w[(a, b)] for (a, b) in e}),
                        "sources": [perm[0], perm[n - 1]], "family": "superlinear-undirected(%d)" % n})
    # adversarial search for work-maximising Dijkstra inputs (guided by the implementation itself)
    for n in ([] if light else [10, 14] if tier == "quick" else [10, 14, 20, 30]):
        for d in (True, False):
            out.append({"k": "dijkstra_adversarial", "dir": d, "n": n, "iterations": 60000 if tier == "quick" else 120000,
                        "restarts": 4 if tier == "quick" else 5, "seed": rng.randint(1, 10 ** 6)})
    # complete DAGs and zero-weight cycles
    for n in ([6, 8] if tier == "quick" else [6, 8, 12, 16]):
        e = {(i, j) for i in range(n) for j in range(n) if i < j}
        out.append({"k": "search", "dir": True, "g": enc_graph(n, e, True), "paths": n <= 8, "sources": [0, 1]})
        out.append({"k": "dijkstra", "dir": True, "g": enc_graph(n, e, True, {x: (x[1] - x[0]) % 3 for x in e}),
                    "sources": [0]})
        cyc = {(i, (i + 1) % n) for i in range(n)} | {(0, 0)}
        out.append({"k": "dijkstra", "dir": True, "g": enc_graph(n, cyc, True, {x: 0 for x in cyc}), "sources": [0, 2]})
    with open(path, "w") as f:
        for c in out:
            f.write(json.dumps(c) + "\n")
    return len(out)


def write_remap_cases(path, seed, tier):
    rng = random.Random(seed + 7)
    out = []
    for k in range(40 if tier == "quick" else 800):
        n = rng.randint(5, 10)
        directed = rng.random() < 0.5
        e = random_graph(rng, n, rng.choice([0.15, 0.3, 0.5]), directed)
        lab = {x: rng.choice([0, 1, 2]) for x in e}
        g = enc_graph(n, e, directed, lab)
        g["tot"] = 0
        S = sorted(rng.sample(range(n), rng.randint(0, n)))
        # the expected getSubgraph result is the induced subgraph (computed here only to feed
        # the harness's deterministic comparison; TLC validates the remap record)
        keep = {x for x in e if x[0] in S and x[1] in S}
        out_g = enc_graph(n, keep, directed, {x: lab[x] for x in keep})
        out_g["tot"] = 0
        out.append({"k": "subgraphD" if directed else "subgraphU", "g": g, "S": S, "out": out_g})
        boundary = any(x[0] in S and x[1] not in S for x in e)
        if boundary and not any("repeat" in c and c["k"] == out[-1]["k"] for c in out[:-1]):
            # call-history independence (one directed, one undirected case whose subset has edges
            # leaving it): 2^16 + some further calls (thorough: 2^17 + some)
            out[-1]["repeat"] = 66000 if tier == "quick" else 132000
    with open(path, "w") as f:
        for c in out:
            f.write(json.dumps(c) + "\n")
    return len(out)


def write_big_conv_cases(path, seed, tier):
    rng = random.Random(seed + 29)
    sizes = [(26, 90), (40, 200), (130, 900)] if tier == "quick" else [(26, 90), (40, 200), (70, 600), (33, 400), (64, 900),
                                                                         (130, 900), (200, 3000), (150, 600)]
    with open(path, "w") as f:
        for (n, m) in sizes:
            f.write(json.dumps({"k": "big_conv", "n": n, "m": m, "seed": rng.randint(1, 10 ** 6), "list": 150}) + "\n")
    return len(sizes)


def _big_conv(pid, tier, seed, ah, want):
    """Constructions on 25-70 vertex random graphs; records validated by DerivedTrace.tla."""
    d = vf.fresh_dir(os.path.join(vf.RUN, pid, "bigconv"))
    p = os.path.join(d, "conv.ndjson")
    write_big_conv_cases(p, seed, tier)
    r = algo.run_ah_on_file(pid, "big-constructions", p, ah, seed,
                            extra_plan={"families": NOLABEL + LABELED[:1] + LABELED[4:5] + ["multigraph+weighted classes"]})
    if r.get("records"):
        # keep only the record kinds of this property
        with open(r["records"]) as f:
            lines = [l for l in f if json.loads(l)["k"] in want]
        with open(r["records"], "w") as f:
            f.writelines(lines)
        r["validation"] = algo.validate_derived_records(pid, "big-constructions", r["records"])
    return r


# ------------------------------------------------------------------ running
def run_all(pid, case_sets, file_sets, seed, ah_exe, validate=True, invariants=("AllResultsOK",)):
    """case_sets: [Cases]; file_sets: [(name, path, extra_plan)].  -> (results, violations)"""
    results, violations = [], []

    def one_cases(cs):
        r = algo.run_cases(pid, with_families(cs), ah_exe, seed)
        if validate and r.get("records"):
            r["validation"] = algo.validate_records(pid, cs.name, r["records"], invariants=invariants)
        return r

    def one_file(item):
        name, path, extra = item
        r = algo.run_ah_on_file(pid, name, path, ah_exe, seed, extra_plan=extra)
        if validate and r.get("records"):
            r["validation"] = algo.validate_records(pid, name, r["records"], invariants=invariants)
        return r

    with concurrent.futures.ThreadPoolExecutor(max_workers=4) as ex:
        futs = [ex.submit(one_cases, cs) for cs in case_sets] + [ex.submit(one_file, it) for it in file_sets]
        for f in futs:
            results.append(f.result())
    os.makedirs(vf.REPLAYS, exist_ok=True)
    for r in results:
        name = r["cases"]
        tl = r["tlc"]
        if tl["violation"]:
            path = os.path.join(vf.REPLAYS, "%s-%s-tlc.json" % (pid, name))
            with open(path, "w") as f:
                json.dump({"kind": "tlc", "cases": name, "violation": tl["violation"], "log": r.get("tlc_log")}, f, indent=1)
            violations.append({"replay": path, "what": "TLC: %s in %s (the specification of the construction violates "
                                                        "its declarative meaning)" % (tl["violation"], name)})
        elif not tl["ok"] and "crash" not in r:      # (TLC is killed when the harness dies)
            raise vf.Infra("TLC did not finish on %s: %s (%s)" % (name, tl["error"], r.get("tlc_log")))
        a = r.get("ah")
        if a is None and ("crash" in r):
            crash = r["crash"]
            path = os.path.join(vf.REPLAYS, "%s-%s-crash.json" % (pid, name))
            note = crash.get("note") or {}
            note.update({"kind": "algo", "crashed": True, "rc": crash.get("rc"), "stderr": crash.get("stderr")})
            with open(path, "w") as f:
                json.dump(note, f, indent=1)
            violations.append({"replay": path, "what": "harness died (rc %s) on case %s" %
                               (crash.get("rc"), json.dumps(note.get("case"))[:300])})
        elif a is not None:
            for p, note in zip(a["replays"], a["fail_notes"]):
                violations.append({"replay": p, "what": note[:400]})
        v = r.get("validation")
        if v:
            for k, rej in enumerate(v["rejected"][:3]):
                path = os.path.join(vf.REPLAYS, "%s-%s-record%d.json" % (pid, name, k))
                with open(path, "w") as f:
                    json.dump({"kind": "record", "cases": name, "index": rej["index"], "record": rej["record"],
                               "note": "the record violates Search!ResultsOK / ScansOK"}, f, indent=1)
                rec = rej["record"]
                violations.append({"replay": path, "what": "record rejected by TLC: %s on %s from source %s (family %s)" %
                                   (rec.get("k"), json.dumps(rec.get("g"))[:200], rec.get("s"), rec.get("family"))})
    return results, violations


def coverage_of(results, level="model_checking"):
    states = sum(r["tlc"]["distinct"] for r in results)
    trans = sum(r["tlc"]["generated"] for r in results)
    cases = sum((r.get("ah") or {}).get("cases", 0) for r in results)
    runs = sum((r.get("ah") or {}).get("runs", 0) for r in results)
    recs = sum((r.get("validation") or {}).get("accepted", 0) for r in results)
    vstates = sum((r.get("validation") or {}).get("tlc_states", 0) for r in results)
    kinds = {}
    for r in results:
        for k, v in ((r.get("ah") or {}).get("kinds") or {}).items():
            kinds[k] = kinds.get(k, 0) + v
    samples = []
    for r in results:
        for s in ((r.get("ah") or {}).get("samples") or [])[:1]:
            samples.append({"cases": r["cases"], "case": s})
    fams = sorted({f for r in results for f in (r.get("ah") or {}).get("families", [])})
    return {
        "states": states + vstates, "transitions": max(trans + vstates, 1),
        "traces_validated_against_impl": recs,
        "cases_enumerated_by_tlc": states,
        "records_validated_by_tlc": recs,
        "cases_executed_on_impl": cases,
        "impl_runs": runs,
        "case_kinds": kinds,
        "outside_property_differences": sum((r.get("ah") or {}).get("outside_property_differences", 0) for r in results),
        "families": fams,
        "samples": samples[:6] or [{"note": "no cases"}],
        "sets": [{"name": r["cases"], "tlc_cases": r["tlc"]["distinct"], "executed": (r.get("ah") or {}).get("cases"),
                  "runs": (r.get("ah") or {}).get("runs"), "records_validated": (r.get("validation") or {}).get("accepted"),
                  "wall_s": r.get("wall_s"), "cut_by_time_limit": bool(r.get("incomplete"))} for r in results],
        "exhaustive": not any(r.get("incomplete") for r in results),
    }


# ------------------------------------------------------------------ properties
def c09(pid, tier, seed):
    q = tier == "quick"
    sets = [Cases("rev-nl", "nolabel", "reverse", 3), Cases("rev-l", "labeled", "reverse", 2 if q else 3, (0, 1)),
            Cases("tod-nl", "nolabel", "todirected", 4), Cases("tod-l", "labeled", "todirected", 3, (0, 1)),
            Cases("tou-nl", "nolabel", "toundirected", 3), Cases("tou-l", "labeled", "toundirected", 2 if q else 3, (0, 1)),
            Cases("el-nl", "nolabel", "edgelist", 3, maxlen=3 if q else 4),
            Cases("el-l", "labeled", "edgelist", 3, (0, 1), maxlen=2 if q else 3),
            Cases("el-m", "multi", "edgelist", 3, (0, 1, 2), maxlen=2 if q else 3),
            Cases("el-w", "weighted", "edgelist", 3, attrs_def="AttrsNeg", maxlen=2 if q else 3)]
    if not q:
        sets += [Cases("rev-nl4", "nolabel", "reverse", 4, emit=False, workers=16),
                 Cases("tod-l3", "labeled", "todirected", 3, (0, 1, 2)),
                 Cases("tou-nl4", "nolabel", "toundirected", 4, emit=False, workers=16)]
    ah = vf.build_ah("o1")
    results, violations = run_all(pid, sets, [], seed, ah)
    big = _big_conv(pid, tier, seed, ah, {"conv_reverse", "conv_todirected", "conv_toundirected", "conv_edgelist"})
    violations += _record_violations(pid, big)
    return violations, coverage_of(results + [big]), ALGO_ASSUMPTIONS


def _record_violations(pid, r):
    out = []
    os.makedirs(vf.REPLAYS, exist_ok=True)
    a = r.get("ah")
    if a is None and "crash" in r:
        path = os.path.join(vf.REPLAYS, "%s-%s-crash.json" % (pid, r["cases"]))
        with open(path, "w") as f:
            json.dump(r["crash"], f, indent=1)
        out.append({"replay": path, "what": "harness died on %s (rc %s)" % (r["cases"], r["crash"].get("rc"))})
    elif a is not None:
        for p, note in zip(a["replays"], a["fail_notes"]):
            out.append({"replay": p, "what": note[:400]})
    for k, rej in enumerate((r.get("validation") or {}).get("rejected", [])[:3]):
        path = os.path.join(vf.REPLAYS, "%s-%s-record%d.json" % (pid, r["cases"], k))
        with open(path, "w") as f:
            json.dump({"kind": "record", "index": rej["index"], "record": rej["record"]}, f, indent=1)
        rec = rej["record"]
        out.append({"replay": path, "what": "record rejected by TLC: %s on a graph of %s vertices (family %s)" %
                    (rec.get("k"), (rec.get("g") or rec.get("out") or {}).get("n"), rec.get("family"))})
    return out


def c10(pid, tier, seed):
    q = tier == "quick"
    sets = [Cases("sg-dn", "nolabel", "subgraphD", 3), Cases("sg-un", "nolabel", "subgraphU", 4),
            Cases("sg-dl", "labeled", "subgraphD", 2 if q else 3, (0, 1)),
            Cases("sg-ul", "labeled", "subgraphU", 3, (0, 1))]
    if not q:
        sets.append(Cases("sg-dn4", "nolabel", "subgraphD", 4, emit=False, workers=16))
    d = vf.fresh_dir(os.path.join(vf.RUN, pid, "files"))
    rp = os.path.join(d, "remap.ndjson")
    write_remap_cases(rp, seed, tier)
    ah = vf.build_ah("o1")
    results, violations = run_all(pid, sets, [("remap-random", rp, {"families": LABELED[:2] + LABELED[4:5]})], seed, ah)
    big = _big_conv(pid, tier, seed, ah, {"conv_subgraph", "remap"})
    violations += _record_violations(pid, big)
    return violations, coverage_of(results + [big]), ALGO_ASSUMPTIONS


def _search_sets(tier, bfs=True, dijkstra=True):
    q = tier == "quick"
    sets = []
    if bfs:
        sets += [Cases("bfs-d", "nolabel", "searchD", 3 if q else 4, families=NOLABEL + LABELED[:1]),
                 Cases("bfs-u", "nolabel", "searchU", 4 if q else 5, families=NOLABEL + LABELED[4:5])]
    if dijkstra:
        sets += [Cases("dij-d", "weighted", "dijkstraD", 2 if q else 3, (0, 1, 2) if q else (0, 1)),
                 Cases("dij-u", "weighted", "dijkstraU", 3 if q else 4, (0, 1, 2) if q else (0, 1))]
    return sets


def _search_files(pid, tier, seed, want):
    d = vf.fresh_dir(os.path.join(vf.RUN, pid, "files"))
    p = os.path.join(d, "search.ndjson")
    write_search_cases(p, seed, tier)
    # keep only the wanted kinds
    with open(p) as f:
        lines = [l for l in f if json.loads(l)["k"] in want or (json.loads(l)["k"] == "dijkstra_adversarial" and want == {"search", "dijkstra"})]
    with open(p, "w") as f:
        f.writelines(lines)
    return [("search-random-and-families", p, {"families": NOLABEL + ["multigraph+weighted classes"]})]


def _algo_models(pid, tier, which):
    """SearchAlgo.tla: the algorithms as implemented, model checked on all graphs within bounds."""
    q = tier == "quick"
    jobs = []
    if "bfs" in which:
        jobs += [("bfs-D", "bfs", True, 3 if q else 4, (1,)), ("bfs-U", "bfs", False, 4 if q else 5, (1,)),
                 ("allpred-D", "allpred", True, 3 if q else 4, (1,)), ("allpred-U", "allpred", False, 4 if q else 5, (1,))]
    if "dijkstra" in which:
        jobs += [("dijkstra-D", "dijkstra", True, 2 if q else 3, (0, 1, 2) if q else (0, 1)),
                 ("dijkstra-U", "dijkstra", False, 3 if q else 4, (0, 1, 2) if q else (0, 1))]
    out, viol = [], []
    with concurrent.futures.ThreadPoolExecutor(max_workers=3) as ex:
        futs = [ex.submit(algo.run_search_algo, pid, j[0], j[1], j[2], j[3], j[4], "fixed", 5 if q else 8) for j in jobs]
        for f in futs:
            out.append(f.result())
    for r in out:
        tl = r["tlc"]
        if tl["violation"]:
            path = os.path.join(vf.REPLAYS, "%s-%s-tlc.json" % (pid, r["cases"].replace(":", "-")))
            os.makedirs(vf.REPLAYS, exist_ok=True)
            with open(path, "w") as f:
                json.dump({"kind": "tlc", "cases": r["cases"], "violation": tl["violation"], "log": r["tlc_log"]}, f, indent=1)
            viol.append({"replay": path, "what": "TLC: %s in the algorithm model %s" % (tl["violation"], r["cases"])})
        elif not tl["ok"]:
            raise vf.Infra("TLC did not finish on %s: %s (%s)" % (r["cases"], tl["error"], r["tlc_log"]))
    return out, viol


def _search_property(pid, tier, seed, bfs, dijkstra, invariants=("AllResultsOK",)):
    ah = vf.build_ah("o1")
    want = set()
    if bfs:
        want.add("search")
    if dijkstra:
        want.add("dijkstra")
    files = _search_files(pid, tier, seed, want)
    if len(want) == 1:
        # the deepest graphs (paths), results known in closed form: 3 000 hops with every entry point,
        # 2^16 - 1, 2^16 and 2^16 + 1 vertices without the quadratic all-paths enumerations; the harness
        # runs these with a 256 KB stack
        deep = os.path.join(os.path.dirname(files[0][1]), "deep.ndjson")
        with open(deep, "w") as f:
            f.write(json.dumps({"k": "search_deep", "n": 3000 if tier == "quick" else 6000}) + "\n")
            f.write(json.dumps({"k": "search_deep", "n": 400 if tier == "quick" else 700, "fromv": True}) + "\n")
            for n in (65535, 65536, 65537) + (() if tier == "quick" else (131072, 262144)):
                f.write(json.dumps({"k": "search_deep", "n": n, "light": True}) + "\n")
        files.append(("deep-paths", deep, {"families": NOLABEL if bfs else ["multigraph+weighted classes"], "_stack_kb": 256}))
    results, violations = run_all(pid, _search_sets(tier, bfs=bfs, dijkstra=dijkstra),
                                  files, seed, ah, invariants=invariants)
    m, mv = _algo_models(pid, tier, (["bfs"] if bfs else []) + (["dijkstra"] if dijkstra else []))
    return violations + mv, coverage_of(results + m), ALGO_ASSUMPTIONS


def c11(pid, tier, seed):
    return _search_property(pid, tier, seed, True, False)


def c12(pid, tier, seed):
    return _search_property(pid, tier, seed, False, True)


def c19(pid, tier, seed):
    return _search_property(pid, tier, seed, True, True, invariants=("AllScansOK",))


def c07_algo_sets(tier):
    q = tier == "quick"
    return [Cases("rej-d", "nolabel", "rejectD", 2, families=NOLABEL + LABELED[:1]),
            Cases("rej-u", "nolabel", "rejectU", 2 if q else 3, families=NOLABEL + LABELED[4:5]),
            Cases("rej-wd", "weighted", "rejectWD", 2, (1,)), Cases("rej-wu", "weighted", "rejectWU", 2, (1,))]


ALGO_ASSUMPTIONS = [
    "inputs are enumerated exhaustively by TLC only up to the stated sizes (every directed/undirected graph on <=3-5 "
    "vertices, small attribute alphabets, edge lists of length <=3-4); larger inputs are random or family instances",
    "results that are not unique (which predecessor, which shortest path, which bijection) are validated relationally "
    "by TLC against the declarative definitions of spec/Search.tla",
    "integer weights only: path sums are exactly representable (the rounding-error clause of C12 is not covered)",
    "neighbourhood scans are observed through a derived graph type whose getOutNeighbours counts calls",
]


# ------------------------------------------------------------------ file codecs
def _unopenable_file(pid):
    d = vf.fresh_dir(os.path.join(vf.RUN, pid, "files"))
    p = os.path.join(d, "unopenable.ndjson")
    with open(p, "w") as f:
        f.write(json.dumps({"k": "unopenable"}) + "\n")
    return p


def write_big_io_cases(path, seed, tier, what):
    """Random large graphs for the writers/loaders (records validated by BinTrace / TextTrace):
    more than 255 / 256 vertices (index and label bytes 0xFF, multi-byte indices), more than 512
    and 4096 edges (any plausible internal buffer), and hand-made text with very long comment lines."""
    rng = random.Random(seed + 13)
    q = tier == "quick"
    out = []
    if what == "bin":
        for d in (True, False):
            out.append({"k": "big_bin", "dir": d, "w": 0, "n": 300, "m": (4500 if d else 700) if q else 5000, "seed": rng.randint(1, 10 ** 6), "high": True})
            out.append({"k": "big_bin", "dir": d, "w": 2, "n": 258, "m": 400, "seed": rng.randint(1, 10 ** 6), "high": True})
            out.append({"k": "big_bin", "dir": d, "w": 4, "n": 70, "m": 300, "seed": rng.randint(1, 10 ** 6)})
            if not q:
                out.append({"k": "big_bin", "dir": d, "w": 1, "n": 600, "m": 1200, "seed": rng.randint(1, 10 ** 6), "high": True})
                out.append({"k": "big_bin", "dir": d, "w": 8, "n": 80, "m": 4500, "seed": rng.randint(1, 10 ** 6)})
                out.append({"k": "big_bin", "dir": d, "w": 0, "n": 70000, "m": 50, "seed": rng.randint(1, 10 ** 6), "high": True})
    else:
        for d in (True, False):
            out.append({"k": "big_text", "dir": d, "codec": "none", "n": 300, "m": (4500 if d else 600) if q else 5000, "seed": rng.randint(1, 10 ** 6), "high": True})
            out.append({"k": "big_text", "dir": d, "codec": "string", "n": 40, "m": 150, "seed": rng.randint(1, 10 ** 6)})
            out.append({"k": "big_text", "dir": d, "codec": "int", "n": 120, "m": 200 if q else 4500, "seed": rng.randint(1, 10 ** 6)})
            # hand-made: long comments (beyond 256 / 1024 / 4096 characters), long runs of whitespace
            long1 = "#" + " x" * 200
            long2 = "# " + "0 1 " * 400
            long3 = "#" + "y" * 5000
            lines = [long1, "0 1", long2, "   2\t\t\t   0" + " " * 300, long3, "10   3", "#", "3 10"]
            out.append({"k": "big_text", "dir": d, "codec": "none", "lines": lines})
            out.append({"k": "big_text", "dir": d, "codec": "string",
                        "lines": ["# c", "0 1 hello world", long2, "1 2 " + "a", "2 2 #x", "7 0 hello world" + " "]})
    with open(path, "w") as f:
        for c in out:
            f.write(json.dumps(c) + "\n")
    return len(out)


def _big_io(pid, tier, seed, what, io):
    d = vf.fresh_dir(os.path.join(vf.RUN, pid, "bigfiles"))
    p = os.path.join(d, "big.ndjson")
    write_big_io_cases(p, seed, tier, what)
    r = algo.run_ah_on_file(pid, "big-" + what, p, io, seed)
    viol = []
    if r.get("records"):
        v = algo.validate_io_records(pid, "big-" + what, r["records"])
        r["validation"] = v
    return r


def c13(pid, tier, seed):
    q = tier == "quick"
    T = algo.TextCases
    sets = []
    for d in (True, False):
        nm = "d" if d else "u"
        sets += [T("t-rt-%s-none" % nm, d, "none", "roundtrip", maxn=3, maxedges=3 if q else 4),
                 T("t-rt-%s-string" % nm, d, "string", "roundtrip", maxn=3, maxedges=2 if q else 3),
                 T("t-rt-%s-int" % nm, d, "int", "roundtrip", maxn=3 if not d else 2, maxedges=2 if q else 3),
                 T("t-rt-%s-char" % nm, d, "char", "roundtrip", maxn=2, maxedges=2 if q else 3)]
    sets += [T("t-load1-full", True, "string", "load", maxedges=1, lineset="full"),
             T("t-load1-full-u-none", False, "none", "load", maxedges=1, lineset="full"),
             T("t-load2-small", False, "int", "load", maxedges=2, lineset="small" if not q else "tiny"),
             T("t-named3", True, "string", "named", maxedges=3 if not q else 2, lineset="tiny"),
             T("t-named1-full", False, "none", "named", maxedges=1, lineset="full"),
             T("t-load1-char", True, "char", "load", maxedges=1, lineset="tiny")]
    if not q:
        sets += [T("t-load3-tiny", True, "string", "load", maxedges=3, lineset="tiny"),
                 T("t-named2-small", True, "int", "named", maxedges=2, lineset="small")]
    io = vf.build_ioh("o1")
    results, violations = run_all(pid, sets, [], seed, io, validate=False)
    big = _big_io(pid, tier, seed, "text", io)
    violations += _io_violations(pid, big)
    return violations, coverage_of(results + [big]), IO_ASSUMPTIONS


def _io_violations(pid, r):
    out = []
    a = r.get("ah")
    if a is None and "crash" in r:
        path = os.path.join(vf.REPLAYS, "%s-%s-crash.json" % (pid, r["cases"]))
        os.makedirs(vf.REPLAYS, exist_ok=True)
        with open(path, "w") as f:
            json.dump(r["crash"], f, indent=1)
        out.append({"replay": path, "what": "harness died on the large-file cases (rc %s)" % r["crash"].get("rc")})
    elif a is not None:
        for p, note in zip(a["replays"], a["fail_notes"]):
            out.append({"replay": p, "what": note[:400]})
    for k, rej in enumerate((r.get("validation") or {}).get("rejected", [])[:3]):
        path = os.path.join(vf.REPLAYS, "%s-%s-record%d.json" % (pid, r["cases"], k))
        os.makedirs(vf.REPLAYS, exist_ok=True)
        with open(path, "w") as f:
            json.dump({"kind": "record", "group": rej["group"], "index": rej["index"], "record": rej["record"]}, f, indent=1)
        out.append({"replay": path, "what": "large-file record rejected by TLC (%s): n=%s edges=%s" %
                    (rej["group"], rej["record"].get("n", rej["record"].get("loaded_n")), rej["record"].get("loaded_en"))})
    return out


def c14(pid, tier, seed):
    q = tier == "quick"
    B = algo.BinCases
    sets = []
    for d in (True, False):
        nm = "d" if d else "u"
        sets += [B("b-rt-%s-w0" % nm, d, 0, "roundtrip", maxedges=3 if q else 4),
                 B("b-rt-%s-w1" % nm, d, 1, "roundtrip", labels=(0, 255)),
                 B("b-rt-%s-w2" % nm, d, 2, "roundtrip", labels=(0, 258), maxedges=2 if q else 3),
                 B("b-rt-%s-w4" % nm, d, 4, "roundtrip", labels=(1, 16909060)),
                 B("b-rt-%s-w8" % nm, d, 8, "roundtrip", labels=(2, 16909060)),
                 B("b-rec-%s-w2" % nm, d, 2, "records", maxedges=3),
                 B("b-rec-%s-w0" % nm, d, 0, "records", maxedges=3)]
    io = vf.build_ioh("o1")
    results, violations = run_all(pid, sets, [("unopenable", _unopenable_file(pid), None)], seed, io, validate=False)
    big = _big_io(pid, tier, seed, "bin", io)
    violations += _io_violations(pid, big)
    return violations, coverage_of(results + [big]), IO_ASSUMPTIONS


def c15(pid, tier, seed):
    q = tier == "quick"
    B, T = algo.BinCases, algo.TextCases
    def sets(suffix=""):
        out = []
        for d in (True, False):
            nm = ("d" if d else "u") + suffix
            out += [B("b-cut-%s-w0" % nm, d, 0, "truncate", maxedges=2 if q else 3),
                    B("b-cut-%s-w2" % nm, d, 2, "truncate", maxedges=2),
                    B("b-cut-%s-w4" % nm, d, 4, "truncate", labels=(16909060,), maxedges=2),
                    T("t-mal-%s-string" % nm, d, "string", "malformed", maxedges=2 if q else 3),
                    T("t-mal-%s-none" % nm, d, "none", "malformed", maxedges=2)]
            if not q:
                out += [B("b-cut-%s-w8" % nm, d, 8, "truncate", labels=(258,), maxedges=2),
                        B("b-cut-%s-w1" % nm, d, 1, "truncate", labels=(7,), maxedges=3),
                        T("t-mal-%s-int" % nm, d, "int", "malformed", maxedges=2)]
        return out
    io = vf.build_ioh("o1")
    d = vf.fresh_dir(os.path.join(vf.RUN, pid, "files"))
    lf = os.path.join(d, "longfield.ndjson")
    with open(lf, "w") as f:
        for n in ((2000, 300000) if q else (2000, 300000, 3000000)):
            for direc in (True, False):
                f.write(json.dumps({"k": "text_longfield", "dir": direc, "len": n}) + "\n")
    results, violations = run_all(pid, sets(), [("long-fields", lf, None)], seed, io, validate=False)
    ioa = vf.build_ioh("asan")
    s2 = sets("-asan")
    if q:
        s2 = [x for x in s2 if "w4" not in x.name]
    results2, v2 = run_all(pid, s2, [], seed, ioa, validate=False)
    violations += v2
    cov = coverage_of(results + results2)
    inside = sum((r.get("ah") or {}).get("cut_inside_record", 0) for r in results)
    boundary = sum((r.get("ah") or {}).get("cut_at_record_boundary", 0) for r in results)
    mal = sum((r.get("ah") or {}).get("malformed_text_files", 0) for r in results)
    cov.update({
        "evaluations": cov["cases_executed_on_impl"],
        "distinct_nontrivial": inside + mal,
        "rule": "binary: BinFormat.tla models the writer as a process appending one byte per step, so every reachable "
                "state is a crash point - every byte offset of every valid file within the bounds (all shapes on <=3 "
                "vertices with <=2-3 edges, label widths 0/2/4 (1/8 thorough), directed and undirected); non-trivial = "
                "cuts strictly inside a record (the loader must return exactly the complete records or throw); text: every "
                "file of <=2-3 lines over well-formed lines and the malformed-line alphabet (blank, one token, non-numeric, "
                "negative, overflowing, stray bytes) with at least one malformed line; each load runs in a forked child with "
                "an alarm (and an address-space limit), in a plain and an ASan+UBSan build: a crash, sanitizer report, "
                "timeout or non-std exception is a violation",
        "cut_inside_record": inside, "cut_at_record_boundary": boundary, "malformed_text_files": mal,
        "builds": ["g++ -O1", "clang++ -O1 -fsanitize=address,undefined"],
    })
    return violations, cov, IO_ASSUMPTIONS + ["vertex indices in generated files are small (< 11), as the property allows"]


IO_ASSUMPTIONS = [
    "files are enumerated exhaustively by TLC only within the stated bounds (<=3 vertices, <=2-4 edges / lines, small "
    "alphabets of labels, tokens and whitespace runs)",
    "label types: NoLabel, uint8/16/32/64 byte-exact against the specification's little-endian records; int32, float and "
    "double by equality round trip and file length only; text codecs none / std::string (identity) / int (to_string, stoi)",
    "big-endian hosts are covered only at the model level (BinFormat!DiskIsLE); this host is little-endian",
]
