"""Shared machinery of the /verif checks: building the C++ harness from the
current working tree of the repository, running TLC, evidence and verdict
plumbing.  Standard library only."""
import concurrent.futures
import hashlib
import json
import os
import re
import shutil
import subprocess
import sys
import time

VERIF = os.path.dirname(os.path.dirname(os.path.abspath(__file__)))
REPO = os.environ.get("VERIF_REPO", "/repo")
INCLUDE = os.path.join(REPO, "include")
BUILD = os.path.join(VERIF, "build")
RUN = os.path.join(VERIF, "run")
SPEC = os.path.join(VERIF, "spec")
HARNESS = os.path.join(VERIF, "harness")
REPLAYS = os.path.join(VERIF, "replays")
EVIDENCE = os.path.join(VERIF, "evidence")
NCPU = os.cpu_count() or 4
if os.path.realpath(REPO) != "/repo":
    # self-test runs against a scratch copy of the repository (seeded changes, the pinned
    # tree): keep their scratch, replays and evidence apart from the real ones
    _tag = os.environ.get("VERIF_RUN_TAG") or hashlib.sha256(REPO.encode()).hexdigest()[:8]
    RUN = os.path.join(VERIF, "run", "alt-" + _tag)
    REPLAYS = os.path.join(RUN, "replays")
    EVIDENCE = os.path.join(RUN, "evidence")


class Infra(Exception):
    """The tooling (not the library under test) failed."""


def log(*a):
    print(*a, file=sys.stderr, flush=True)


def sh(cmd, **kw):
    return subprocess.run(cmd, **kw)


# --------------------------------------------------------------------------- build
BUILD_CONFIGS = {
    # name: (compiler, flags)
    "o1": ("g++", ["-O1", "-g0"]),
    "o2": ("g++", ["-O2", "-g0"]),
    "dbg": ("g++", ["-O0", "-g0", "-D_GLIBCXX_DEBUG", "-D_GLIBCXX_ASSERTIONS"]),
    "clang": ("clang++", ["-O2", "-g0"]),
    "asan": ("clang++", ["-O1", "-g", "-fsanitize=address,undefined", "-fno-sanitize-recover=all",
                          "-fno-omit-frame-pointer"]),
    "tsan": ("clang++", ["-O1", "-g", "-fsanitize=thread"]),
}

GRAPH_INSTANCES = [
    ("dn", "BaseGraph::LabeledDirectedGraph<BaseGraph::NoLabel>"),
    ("un", "BaseGraph::LabeledUndirectedGraph<BaseGraph::NoLabel>"),
    ("dl", "BaseGraph::LabeledDirectedGraph<int>"),
    ("dl", "BaseGraph::LabeledDirectedGraph<unsigned>"),
    ("dl", "BaseGraph::LabeledDirectedGraph<double>"),
    ("dl", "BaseGraph::LabeledDirectedGraph<char>"),
    ("dl", "BaseGraph::LabeledDirectedGraph<std::string>"),
    ("dl", "BaseGraph::LabeledDirectedGraph<verif::Custom>"),
    ("ul", "BaseGraph::LabeledUndirectedGraph<int>"),
    ("ul", "BaseGraph::LabeledUndirectedGraph<unsigned>"),
    ("ul", "BaseGraph::LabeledUndirectedGraph<double>"),
    ("ul", "BaseGraph::LabeledUndirectedGraph<char>"),
    ("ul", "BaseGraph::LabeledUndirectedGraph<std::string>"),
    ("ul", "BaseGraph::LabeledUndirectedGraph<verif::Custom>"),
    ("dm", "BaseGraph::DirectedMultigraph"),
    ("um", "BaseGraph::UndirectedMultigraph"),
    ("dw", "BaseGraph::DirectedWeightedGraph"),
    ("uw", "BaseGraph::UndirectedWeightedGraph"),
]


def tree_hash(paths):
    h = hashlib.sha256()
    for root in paths:
        if os.path.isfile(root):
            files = [root]
        else:
            files = []
            for d, _, fs in os.walk(root):
                for f in fs:
                    files.append(os.path.join(d, f))
        for f in sorted(files):
            h.update(f.encode())
            with open(f, "rb") as fh:
                h.update(fh.read())
    return h.hexdigest()[:16]


def _compile(job):
    cmd, out = job
    r = sh(cmd, capture_output=True, text=True)
    return (r.returncode, out, r.stderr[-4000:], " ".join(cmd))


def build_program(name, config, units, extra_flags=(), libs=()):
    """Build build/<name>-<config>-<hash> from translation units.
    units: list of (source_path, [extra -D flags], object_tag).  Rebuilds whenever the
    repository headers, the harness sources or the flags change."""
    cc, flags = BUILD_CONFIGS[config]
    key = tree_hash([INCLUDE, HARNESS]) + hashlib.sha256(
        json.dumps([name, config, units, list(extra_flags), list(libs), REPO]).encode()).hexdigest()[:8]
    repotag = hashlib.sha256(REPO.encode()).hexdigest()[:6]
    prefix = "%s-%s-%s-" % (name, config, repotag)
    exe = os.path.join(BUILD, prefix + key)
    if os.path.exists(exe):
        return exe
    os.makedirs(BUILD, exist_ok=True)
    # one builder at a time per program/config/repository (checks may run concurrently)
    import fcntl
    lock = open(os.path.join(BUILD, prefix + "lock"), "w")
    fcntl.flock(lock, fcntl.LOCK_EX)
    try:
        return _build_locked(exe, prefix, config, units, extra_flags, libs, cc, flags)
    finally:
        fcntl.flock(lock, fcntl.LOCK_UN)
        lock.close()


def _build_locked(exe, prefix, config, units, extra_flags, libs, cc, flags):
    if os.path.exists(exe):
        return exe
    # drop stale builds of the same program/config (for the same repository path)
    for f in os.listdir(BUILD):
        if f.startswith(prefix) and not f.endswith("lock"):
            p = os.path.join(BUILD, f)
            shutil.rmtree(p) if os.path.isdir(p) else os.remove(p)
    objdir = exe + ".obj"
    os.makedirs(objdir, exist_ok=True)
    base = [cc, "-std=c++17", "-I" + INCLUDE, "-I" + HARNESS, "-w"] + flags + list(extra_flags)
    jobs = []
    objs = []
    for src, defs, tag in units:
        obj = os.path.join(objdir, tag + ".o")
        objs.append(obj)
        jobs.append((base + list(defs) + ["-c", src, "-o", obj], obj))
    t0 = time.time()
    with concurrent.futures.ThreadPoolExecutor(max_workers=NCPU) as ex:
        results = list(ex.map(_compile, jobs))
    for rc, out, err, cmd in results:
        if rc != 0:
            shutil.rmtree(objdir, ignore_errors=True)
            raise Infra("harness does not compile (%s):\n%s\n%s" % (os.path.basename(out), cmd, err))
    r = sh([cc] + flags + objs + ["-o", exe + ".tmp", "-pthread"] + list(libs), capture_output=True, text=True)
    if r.returncode != 0:
        raise Infra("harness does not link: " + r.stderr[-3000:])
    os.replace(exe + ".tmp", exe)
    shutil.rmtree(objdir, ignore_errors=True)
    log("[build] %s (%s) in %.1fs" % (os.path.basename(exe), config, time.time() - t0))
    return exe


def build_gh(config="o1", groups=None):
    """The graph-object harness (harness/main.cpp + one TU per instantiated class)."""
    units = [(os.path.join(HARNESS, "main.cpp"), [], "main")]
    k = 0
    for grp, typ in GRAPH_INSTANCES:
        if groups is not None and grp not in groups:
            continue
        units.append((os.path.join(HARNESS, "inst.cpp"),
                      ["-DVGROUP=\"%s\"" % grp, "-DVTYPE=%s" % typ], "inst%d" % k))
        k += 1
    return build_program("gh" + ("" if groups is None else "_" + "_".join(sorted(groups))), config, units)


# --------------------------------------------------------------------------- TLC
TLC_JAR = "/opt/veriftools/tla/tla2tools.jar"
COMMUNITY = "/opt/veriftools/tla/CommunityModules-deps.jar"


def tlc_cmd(module, cfg, metadir, workers=None, extra=(), heap="8g", jvm=()):
    cp = TLC_JAR + ":" + COMMUNITY
    return (["java", "-Xmx" + heap, "-XX:+UseParallelGC"] + list(jvm) + ["-cp", cp, "tlc2.TLC", "-workers", str(workers or NCPU),
            "-metadir", metadir, "-noGenerateSpecTE", "-config", cfg] + list(extra) + [module])


TLC_STATS = re.compile(r"^(\d+) states generated, (\d+) distinct states found, (\d+) states left on queue")


def parse_tlc_output(text):
    """-> dict(generated, distinct, ok, violation(str|None), error(str|None), coverage{action: [taken, generated]})"""
    res = {"generated": 0, "distinct": 0, "ok": False, "violation": None, "error": None, "coverage": {}, "depth": None}
    for line in text.splitlines():
        m = TLC_STATS.match(line)
        if m:
            res["generated"], res["distinct"] = int(m.group(1)), int(m.group(2))
        if "Model checking completed. No error has been found." in line:
            res["ok"] = True
        m = re.match(r"Error: Invariant (\S+) is violated", line)
        if m:
            res["violation"] = "invariant " + m.group(1)
        m = re.match(r"Error: Action property (\S+) is violated", line)
        if m:
            res["violation"] = "action property " + m.group(1)
        if line.startswith("Error:") and res["violation"] is None and res["error"] is None:
            res["error"] = line
        m = re.match(r"The depth of the complete state graph search is (\d+)", line)
        if m:
            res["depth"] = int(m.group(1))
        m = re.match(r"^<(\w+) line (\d+), col \d+ to line \d+, col \d+ of module (\w+)>: (\d+):(\d+)", line)
        if m:
            res["coverage"]["%s@%s:%s" % (m.group(1), m.group(3), m.group(2))] = [int(m.group(4)), int(m.group(5))]
    return res


def write_cfg(path, constants, init="Init", nxt="Next", invariants=(), properties=(), view=None,
              action_constraints=(), constraints=(), extra_lines=(), check_deadlock=False, postcondition=None):
    lines = ["\\* generated by /verif/lib - do not edit", "CONSTANTS"]
    for k, v in constants.items():
        lines.append("  %s %s" % (k, v))
    lines.append("INIT " + init)
    lines.append("NEXT " + nxt)
    if view:
        lines.append("VIEW " + view)
    for a in action_constraints:
        lines.append("ACTION_CONSTRAINT " + a)
    for c in constraints:
        lines.append("CONSTRAINT " + c)
    if invariants:
        lines.append("INVARIANTS " + " ".join(invariants))
    if properties:
        lines.append("PROPERTIES " + " ".join(properties))
    if postcondition:
        lines.append("POSTCONDITION " + postcondition)
    lines.append("CHECK_DEADLOCK " + ("TRUE" if check_deadlock else "FALSE"))
    lines.extend(extra_lines)
    os.makedirs(os.path.dirname(path), exist_ok=True)
    with open(path, "w") as f:
        f.write("\n".join(lines) + "\n")
    return path


def tla_set(xs):
    def one(x):
        if isinstance(x, bool):
            return "TRUE" if x else "FALSE"
        if isinstance(x, str):
            return '"%s"' % x
        return str(x)
    return "{" + ", ".join(one(x) for x in xs) + "}"


def fresh_dir(path):
    shutil.rmtree(path, ignore_errors=True)
    os.makedirs(path, exist_ok=True)
    return path


# --------------------------------------------------------------------------- evidence / verdict
def write_evidence(pid, tier, seed, level, coverage, assumptions, wall_s, violations):
    os.makedirs(EVIDENCE, exist_ok=True)
    ev = {"property_id": pid, "tier": tier, "seed": int(seed), "level": level, "coverage": coverage,
          "assumptions": list(assumptions), "wall_s": round(wall_s, 2), "violations": int(violations)}
    with open(os.path.join(EVIDENCE, pid + ".json"), "w") as f:
        json.dump(ev, f, indent=1)
    return ev


def load_known():
    with open(os.path.join(VERIF, "known_findings.json")) as f:
        return json.load(f)


ALGO_LABELS = ["BaseGraph::NoLabel", "int", "unsigned", "double", "char", "std::string", "verif::Custom"]


def build_ah(config="o1", labels=None):
    """The algorithm harness (harness/algo_main.cpp + one TU per label type + multigraph/weighted)."""
    units = [(os.path.join(HARNESS, "algo_main.cpp"), [], "main"),
             (os.path.join(HARNESS, "algo_mw.cpp"), [], "mw")]
    for k, lab in enumerate(ALGO_LABELS):
        if labels is not None and lab not in labels:
            continue
        units.append((os.path.join(HARNESS, "algo_inst.cpp"), ["-DVLABEL=%s" % lab], "lab%d" % k))
    return build_program("ah", config, units)


def build_ioh(config="o1"):
    """The file-codec harness (harness/io_main.cpp)."""
    return build_program("ioh", config, [(os.path.join(HARNESS, "io_main.cpp"), [], "main")])


def build_ch(config="tsan"):
    """The concurrent-readers harness (harness/conc_main.cpp)."""
    return build_program("ch", config, [(os.path.join(HARNESS, "conc_main.cpp"), [], "main")])
