"""Property id -> how it is decided."""
import json
import os
import re
import subprocess

import props_machine
import vf

PROPERTIES = {}

MACHINE_ASSUMPTIONS = [
    "TLC explores the specification exhaustively only within the constants of each scenario (MaxN, label/"
    "multiplicity/weight alphabets, copies); larger sizes are reached by validating recorded executions",
    "neighbour order is abstracted to a bag in the specification; order variety on the implementation side comes "
    "from several concrete representatives per abstract state and from random recorded histories",
    "label types are sampled by NoLabel, int, unsigned, double, char, std::string and a user struct",
    "weights are integers (exactly representable); rounding-error clauses are not covered",
]


def machine_run(pid, tier, seed):
    scenarios = props_machine.TABLE[pid](tier)
    gh = vf.build_gh("o1")
    results, violations = props_machine.run_scenarios(pid, scenarios, seed, gh)
    cov = props_machine.coverage_of(results, scenarios)
    return violations, cov, MACHINE_ASSUMPTIONS


_MACHINE_TEXT = {
    "C01": "TLC visits every reachable state of the directed-graph state machine (all histories over <=3-4 vertices) and checks the faithfulness invariants against a ghost set of pairs; every transition of that state graph is executed on LabeledDirectedGraph<L> for seven label kinds and all observers compared; recorded random executions on larger graphs are validated by TLC",
    "C02": "same as C01 for the undirected classes: half-edge representation explicit in the spec, symmetry / loop-once / count-once invariants checked by TLC in all reachable states, state graph executed on the real classes in both orientations of every call",
    "C03": "label map is a separate state component updated per mutator as in the code; TLC checks 'label exists iff edge exists and equals the ghost label' in every reachable state (directed and undirected); all transitions executed on six label types; traces validated",
    "C04": "multigraph state machine (cached totalEdgeNumber, multiplicity stored in the label map) model checked against a ghost multiplicity function incl. arithmetic action properties; state graph executed on both multigraph classes; traces validated",
    "C05": "weighted state machine with integer (exactly representable) weights model checked against a ghost weight function (total = exact sum); state graph executed on both weighted classes; traces validated",
    "C16": "state machines with force=true enabled (bounded copies) model checked against ghost copy counters and the unforced twin; state graph executed on all eight classes; traces validated",
}
for _pid in ("C01", "C02", "C03", "C04", "C05", "C16"):
    PROPERTIES[_pid] = {
        "run": machine_run, "level": "model_checking", "text": _MACHINE_TEXT[_pid],
        "note": "exhaustive only within the scenario constants (vertices, label/multiplicity/weight alphabets, copies); "
                "trusted base: TLC, the projection code of harness/objects.hpp, nlohmann-json; neighbour order abstracted to bags; "
                "integer weights only (no rounding-error clause); label types sampled by 7 kinds",
        "technique": "TLA+ state machine + ghost model checked by TLC; state-graph replay on the real classes; TLC trace validation of recorded executions",
    }

PROPERTIES["C06"] = {
    "run": machine_run, "level": "model_checking",
    "text": "Pair.tla: the product of two independent state machines of one class plus copy/assign; TLC checks in every "
            "reachable PAIR of states (= every pair of histories over the constants) that operator== as the code computes it "
            "(size, cached edge count, label-map equality, mutual list inclusion) holds iff the ghosts denote the same graph, "
            "that it is symmetric and reflexive, and that copies are equal and independent; every product transition is "
            "executed on two real objects of each class / label kind comparing ==, != in both directions",
    "note": "exhaustive within small constants (2-3 vertices, 2-3 labels/multiplicities/weights); duplicate-free histories "
            "as the property states; integer weights only, so order-dependent floating-point rounding in weight sums is not exercised",
    "technique": "TLA+ product state machine model checked by TLC; product state graph replayed on pairs of real objects",
}

NOT_APPLICABLE = {
    "C20": "compile-/link-time well-formedness of templates and headers: there is no state, transition or observable "
           "behaviour for a TLA+ specification to describe or for a trace to bind (DESIGN.md section 5)",
}


def match_known(pid, violation, known):
    for k in known.get("open", []):
        if pid not in k.get("properties", []):
            continue
        if re.search(k["match"], violation.get("what", "")):
            return k["what"]
    return None


def replay(pid, path):
    with open(path) as f:
        r = json.load(f)
    kind = r.get("kind")
    if kind == "walk":
        gh = vf.build_gh("o1")
        return subprocess.run([gh, "replay", path]).returncode
    if kind == "tlc":
        print(open(r["log"]).read())
        return 1
    if kind == "trace":
        print(json.dumps(r, indent=1))
        return 1
    print("unknown replay kind")
    return 2
