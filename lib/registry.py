"""Property id -> how it is decided."""
import json
import os
import re
import subprocess

import props_machine
import vf

PROPERTIES = {}

MACHINE_ASSUMPTIONS = [
    "TLC explores the specification exhaustively only within the constants of each scenario (MaxN, label/"
    "multiplicity/weight alphabets, copies); larger sizes are reached by validating recorded executions",
    "neighbour order is abstracted to a bag in the specification; order variety on the implementation side comes "
    "from several concrete representatives per abstract state and from random recorded histories",
    "label types are sampled by NoLabel, int, unsigned, double, char, std::string and a user struct",
    "weights are integers (exactly representable); rounding-error clauses are not covered",
]


def machine_run(pid, tier, seed):
    scenarios = props_machine.TABLE[pid](tier)
    gh = vf.build_gh("o1")
    results, violations = props_machine.run_scenarios(pid, scenarios, seed, gh)
    cov = props_machine.coverage_of(results, scenarios)
    return violations, cov, MACHINE_ASSUMPTIONS


_MACHINE_TEXT = {
    "C01": "TLC visits every reachable state of the directed-graph state machine (all histories over <=3-4 vertices) and checks the faithfulness invariants against a ghost set of pairs; every transition of that state graph is executed on LabeledDirectedGraph<L> for seven label kinds and all observers compared; recorded random executions on larger graphs are validated by TLC",
    "C02": "same as C01 for the undirected classes: half-edge representation explicit in the spec, symmetry / loop-once / count-once invariants checked by TLC in all reachable states, state graph executed on the real classes in both orientations of every call",
    "C03": "label map is a separate state component updated per mutator as in the code; TLC checks 'label exists iff edge exists and equals the ghost label' in every reachable state (directed and undirected); all transitions executed on six label types; traces validated",
    "C04": "multigraph state machine (cached totalEdgeNumber, multiplicity stored in the label map) model checked against a ghost multiplicity function incl. arithmetic action properties; state graph executed on both multigraph classes; traces validated",
    "C05": "weighted state machine with integer (exactly representable) weights model checked against a ghost weight function (total = exact sum); state graph executed on both weighted classes; traces validated",
    "C16": "state machines with force=true enabled (bounded copies) model checked against ghost copy counters and the unforced twin; state graph executed on all eight classes; traces validated",
}
for _pid in ("C01", "C02", "C03", "C04", "C05", "C16"):
    PROPERTIES[_pid] = {
        "run": machine_run, "level": "model_checking", "text": _MACHINE_TEXT[_pid],
        "note": "exhaustive only within the scenario constants (vertices, label/multiplicity/weight alphabets, copies); "
                "trusted base: TLC, the projection code of harness/objects.hpp, nlohmann-json; neighbour order abstracted to bags; "
                "integer weights only (no rounding-error clause); label types sampled by 7 kinds",
        "technique": "TLA+ state machine + ghost model checked by TLC; state-graph replay on the real classes; TLC trace validation of recorded executions",
    }

PROPERTIES["C06"] = {
    "run": machine_run, "level": "model_checking",
    "text": "Pair.tla: the product of two independent state machines of one class plus copy/assign; TLC checks in every "
            "reachable PAIR of states (= every pair of histories over the constants) that operator== as the code computes it "
            "(size, cached edge count, label-map equality, mutual list inclusion) holds iff the ghosts denote the same graph, "
            "that it is symmetric and reflexive, and that copies are equal and independent; every product transition is "
            "executed on two real objects of each class / label kind comparing ==, != in both directions",
    "note": "exhaustive within small constants (2-3 vertices, 2-3 labels/multiplicities/weights); duplicate-free histories "
            "as the property states; integer weights only, so order-dependent floating-point rounding in weight sums is not exercised",
    "technique": "TLA+ product state machine model checked by TLC; product state graph replayed on pairs of real objects",
}

import props_algo  # noqa: E402

_ALGO_NOTE = ("exhaustive only up to the stated input sizes; trusted base: TLC, harness/algo*.hpp (builds the real input "
              "graphs from the specification's values and encodes results), nlohmann-json; label types sampled by 7 kinds")
PROPERTIES["C09"] = {
    "run": props_algo.c09, "level": "model_checking",
    "text": "Derived.tla writes reversal, both conversions and the six edge-list constructors as the loops the code runs over "
            "the GraphOps operators; TLC checks their declarative meaning (exact reversed pairs/labels, reverse twice = id, "
            "both orientations with the edge's label, U->D->U = id, label is one of the joined edges', 1+max vertices, equal to "
            "adding one at a time) on EVERY graph / edge list within the bounds, and prints each case with the expected result; "
            "the harness runs the real functions (vector, list, deque, set, multiset containers; 7 label kinds; 8 classes) on "
            "two concrete representatives of each input and compares",
    "note": _ALGO_NOTE + "; copy construction/assignment are exercised in C06's product walk",
    "technique": "TLC enumeration of all small inputs with invariants on a TLA+ transcription; spec-generated expected outputs compared on the real functions",
}
PROPERTIES["C10"] = {
    "run": props_algo.c10, "level": "model_checking",
    "text": "Derived.tla: the getSubgraph loop equals the declarative induced subgraph for every graph on <=3-4 vertices and all "
            "2^n subsets (TLC invariant); expected results replayed on the real getSubgraph; getSubgraphWithRemap results are "
            "recorded (graph, S, result, map) and TLC validates RemapOK (any bijection) on each record, also for random 5-10 vertex graphs",
    "note": _ALGO_NOTE,
    "technique": "TLC enumeration + invariants; replay on real code; TLC validation of recorded remap results",
}
PROPERTIES["C11"] = {
    "run": props_algo.c11, "level": "model_checking",
    "text": "Search.tla defines hop distance, valid predecessors, the set of all predecessors and the set of all shortest paths "
            "declaratively; TLC enumerates every digraph on <=3-4 and undirected graph on <=4-5 vertices; the harness runs all eight "
            "BFS entry points from every source and TLC validates every record (distances, single predecessors, predecessor sets "
            "without repeats, one path per destination, the complete duplicate-free set of shortest paths); random 5-12 vertex "
            "graphs likewise; SearchAlgo.tla model checks the algorithms themselves",
    "note": _ALGO_NOTE,
    "technique": "declarative TLA+ specification; TLC validation of records of the real searches on TLC-enumerated and random inputs; algorithm model checked in SearchAlgo.tla",
}
PROPERTIES["C12"] = {
    "run": props_algo.c12, "level": "model_checking",
    "text": "Search.tla: minimum weighted distance as a Bellman-Ford fixpoint and tree consistency; TLC enumerates every weighted "
            "digraph on <=2-3 and undirected on <=3-4 vertices over weights {0,1,2}; records of the real findGeodesicsDijkstra from "
            "every source validated by TLC; random and zero-weight-cycle graphs likewise; every call runs under a scan cap so a "
            "non-terminating change fails deterministically",
    "note": _ALGO_NOTE + "; integer weights only",
    "technique": "declarative TLA+ specification; TLC validation of recorded Dijkstra results; algorithm model checked in SearchAlgo.tla",
}
PROPERTIES["C19"] = {
    "run": props_algo.c19, "level": "model_checking",
    "text": "neighbourhood scans of the three predecessor searches are counted through a derived graph type and recorded; TLC "
            "checks scans1<=V, scans2<=V+E, Dijkstra scans<=V+E+1 on every record: all small graphs (exhaustive), random graphs, and "
            "path-explosive families (layered graphs with w^k shortest paths, grids, complete DAGs, zero-weight cycles); "
            "SearchAlgo.tla model checks the bounds on the algorithm models",
    "note": _ALGO_NOTE + "; the bound is on the number of getOutNeighbours calls, as the property states",
    "technique": "scan counting via template graph type; TLC validation of scan counts in records; algorithm models with scan counters model checked",
}

NOT_APPLICABLE = {
    "C20": "compile-/link-time well-formedness of templates and headers: there is no state, transition or observable "
           "behaviour for a TLA+ specification to describe or for a trace to bind (DESIGN.md section 5)",
}


def match_known(pid, violation, known):
    for k in known.get("open", []):
        if pid not in k.get("properties", []):
            continue
        if re.search(k["match"], violation.get("what", "")):
            return k["what"]
    return None


def replay(pid, path):
    with open(path) as f:
        r = json.load(f)
    kind = r.get("kind")
    if kind == "walk":
        gh = vf.build_gh("o1")
        return subprocess.run([gh, "replay", path]).returncode
    if kind == "tlc":
        print(open(r["log"]).read())
        return 1
    if kind == "trace":
        print(json.dumps(r, indent=1))
        return 1
    print("unknown replay kind")
    return 2
