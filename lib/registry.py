"""Property id -> how it is decided."""
import json
import os
import re
import subprocess

import props_machine
import vf

PROPERTIES = {}

MACHINE_ASSUMPTIONS = [
    "TLC explores the specification exhaustively only within the constants of each scenario (MaxN, label/"
    "multiplicity/weight alphabets, copies); larger sizes are reached by validating recorded executions",
    "neighbour order is abstracted to a bag in the specification; order variety on the implementation side comes "
    "from several concrete representatives per abstract state and from random recorded histories",
    "label types are sampled by NoLabel, int, unsigned, double, char, std::string and a user struct",
    "weights are integers (exactly representable); rounding-error clauses are not covered",
]


def machine_run(pid, tier, seed):
    scenarios = props_machine.TABLE[pid](tier)
    gh = vf.build_gh("o1")
    results, violations = props_machine.run_scenarios(pid, scenarios, seed, gh)
    cov = props_machine.coverage_of(results, scenarios)
    if pid in suite.GROUPS:
        _add_suite(pid, violations, cov)
    return violations, cov, MACHINE_ASSUMPTIONS


def _add_suite(pid, violations, cov):
    """the repository's own test programs, run against an instrumented copy of the working tree's
    headers: every mutator call they make is validated by TLC as a step of the specification"""
    sv, scov = suite.run(pid)
    violations += sv
    cov["states"] = cov.get("states", 0) + scov.pop("states")
    cov["traces_validated_against_impl"] = cov.get("traces_validated_against_impl", 0) + scov["suite_programs_run"]
    cov["trace_events_validated"] = cov.get("trace_events_validated", 0) + scov["suite_distinct_events_validated"]
    cov.update(scov)


_MACHINE_TEXT = {
    "C01": "TLC visits every reachable state of the directed-graph state machine (all histories over <=3-4 vertices) and checks the faithfulness invariants against a ghost set of pairs; every transition of that state graph is executed on LabeledDirectedGraph<L> for seven label kinds and all observers compared; recorded random executions on larger graphs are validated by TLC",
    "C02": "same as C01 for the undirected classes: half-edge representation explicit in the spec, symmetry / loop-once / count-once invariants checked by TLC in all reachable states, state graph executed on the real classes in both orientations of every call",
    "C03": "label map is a separate state component updated per mutator as in the code; TLC checks 'label exists iff edge exists and equals the ghost label' in every reachable state (directed and undirected); all transitions executed on six label types; traces validated",
    "C04": "multigraph state machine (cached totalEdgeNumber, multiplicity stored in the label map) model checked against a ghost multiplicity function incl. arithmetic action properties; state graph executed on both multigraph classes; traces validated",
    "C05": "weighted state machine with integer (exactly representable) weights model checked against a ghost weight function (total = exact sum); state graph executed on both weighted classes; traces validated",
    "C16": "state machines with force=true enabled (bounded copies) model checked against ghost copy counters and the unforced twin; state graph executed on all eight classes; traces validated",
}
for _pid in ("C01", "C02", "C03", "C04", "C05", "C16"):
    PROPERTIES[_pid] = {
        "run": machine_run, "level": "model_checking", "text": _MACHINE_TEXT[_pid],
        "note": "exhaustive only within the scenario constants (vertices, label/multiplicity/weight alphabets, copies); "
                "trusted base: TLC, the projection code of harness/objects.hpp, nlohmann-json; neighbour order abstracted to bags; "
                "integer weights only (no rounding-error clause); label types sampled by 7 kinds",
        "technique": "TLA+ state machine + ghost model checked by TLC; state-graph replay on the real classes; TLC trace validation of recorded executions, incl. every mutator call of the repository's own test programs (instrumented copy of the headers)",
    }

def c06_run(pid, tier, seed):
    """Pair.tla product walk + recorded random pairs on larger graphs validated by PairTrace.tla."""
    import machine
    violations, cov, assumptions = machine_run(pid, tier, seed)
    gh = vf.build_gh("o1")
    q = tier == "quick"
    total = {"records": 0, "accepted": 0, "equal_pairs": 0, "tlc_states": 0}
    os.makedirs(vf.REPLAYS, exist_ok=True)
    for group in ("dn", "un", "dl", "ul", "dm", "um", "dw", "uw"):
        fams = None if not q else ([0, 4] if group in ("dl", "ul") else None)
        r = machine.record_pairs(pid, group, gh, seed, 30 if q else 300, families=fams)
        for k in total:
            total[k] += r[k]
        for c in r["crashes"]:
            path = os.path.join(vf.REPLAYS, "%s-pairs-%s-crash%d.json" % (pid, group, c["family_index"]))
            with open(path, "w") as f:
                json.dump(c, f, indent=1)
            violations.append({"replay": path, "what": "pair recorder died on %s (rc %s)" % (group, c["rc"])})
        for k, rej in enumerate(r["rejected"]):
            path = os.path.join(vf.REPLAYS, "%s-pairs-%s-record%d.json" % (pid, group, k))
            with open(path, "w") as f:
                json.dump({"kind": "pairrecord", "group": group, "family_index": rej["family_index"], "record": rej["record"]}, f, indent=1)
            rec = rej["record"]
            violations.append({"replay": path, "what": "operator== verdict rejected by TLC (%s, %s): a==b %s, b==a %s, graphs %s" %
                               (group, rec.get("how"), rec.get("e12"), rec.get("e21"),
                                "equal" if rec.get("a") == rec.get("b") else "different")})
    cov["pair_records_validated_by_tlc"] = total["accepted"]
    cov["pair_records_showing_equal_graphs"] = total["equal_pairs"]
    cov["traces_validated_against_impl"] = cov.get("traces_validated_against_impl", 0) + total["accepted"]
    cov["states"] += total["tlc_states"]
    return violations, cov, assumptions


PROPERTIES["C06"] = {
    "run": c06_run, "level": "model_checking",
    "text": "Pair.tla: the product of two independent state machines of one class plus copy/assign; TLC checks in every "
            "reachable PAIR of states (= every pair of histories over the constants) that operator== as the code computes it "
            "(size, cached edge count, label-map equality, mutual list inclusion) holds iff the ghosts denote the same graph, "
            "that it is symmetric and reflexive, and that copies are equal and independent; every product transition is "
            "executed on two real objects of each class / label kind comparing ==, != in both directions",
    "note": "exhaustive within small constants (2-3 vertices, 2-3 labels/multiplicities/weights); duplicate-free histories "
            "as the property states; integer weights only, so order-dependent floating-point rounding in weight sums is not exercised",
    "technique": "TLA+ product state machine model checked by TLC; product state graph replayed on pairs of real objects",
}

import props_algo  # noqa: E402
import suite  # noqa: E402

_ALGO_NOTE = ("exhaustive only up to the stated input sizes; trusted base: TLC, harness/algo*.hpp (builds the real input "
              "graphs from the specification's values and encodes results), nlohmann-json; label types sampled by 7 kinds")
PROPERTIES["C09"] = {
    "run": props_algo.c09, "level": "model_checking",
    "text": "Derived.tla writes reversal, both conversions and the six edge-list constructors as the loops the code runs over "
            "the GraphOps operators; TLC checks their declarative meaning (exact reversed pairs/labels, reverse twice = id, "
            "both orientations with the edge's label, U->D->U = id, label is one of the joined edges', 1+max vertices, equal to "
            "adding one at a time) on EVERY graph / edge list within the bounds, and prints each case with the expected result; "
            "the harness runs the real functions (vector, list, deque, set, multiset containers; 7 label kinds; 8 classes) on "
            "two concrete representatives of each input and compares",
    "note": _ALGO_NOTE + "; copy construction/assignment are exercised in C06's product walk",
    "technique": "TLC enumeration of all small inputs with invariants on a TLA+ transcription; spec-generated expected outputs compared on the real functions",
}
PROPERTIES["C10"] = {
    "run": props_algo.c10, "level": "model_checking",
    "text": "Derived.tla: the getSubgraph loop equals the declarative induced subgraph for every graph on <=3-4 vertices and all "
            "2^n subsets (TLC invariant); expected results replayed on the real getSubgraph; getSubgraphWithRemap results are "
            "recorded (graph, S, result, map) and TLC validates RemapOK (any bijection) on each record, also for random 5-10 vertex graphs",
    "note": _ALGO_NOTE,
    "technique": "TLC enumeration + invariants; replay on real code; TLC validation of recorded remap results",
}
PROPERTIES["C11"] = {
    "run": props_algo.c11, "level": "model_checking",
    "text": "Search.tla defines hop distance, valid predecessors, the set of all predecessors and the set of all shortest paths "
            "declaratively; TLC enumerates every digraph on <=3-4 and undirected graph on <=4-5 vertices; the harness runs all eight "
            "BFS entry points from every source and TLC validates every record (distances, single predecessors, predecessor sets "
            "without repeats, one path per destination, the complete duplicate-free set of shortest paths); random 5-12 vertex "
            "graphs likewise; SearchAlgo.tla model checks the algorithms themselves",
    "note": _ALGO_NOTE,
    "technique": "declarative TLA+ specification; TLC validation of records of the real searches on TLC-enumerated and random inputs; algorithm model checked in SearchAlgo.tla",
}
PROPERTIES["C12"] = {
    "run": props_algo.c12, "level": "model_checking",
    "text": "Search.tla: minimum weighted distance as a Bellman-Ford fixpoint and tree consistency; TLC enumerates every weighted "
            "digraph on <=2-3 and undirected on <=3-4 vertices over weights {0,1,2}; records of the real findGeodesicsDijkstra from "
            "every source validated by TLC; random and zero-weight-cycle graphs likewise; every call runs under a scan cap so a "
            "non-terminating change fails deterministically",
    "note": _ALGO_NOTE + "; integer weights only",
    "technique": "declarative TLA+ specification; TLC validation of recorded Dijkstra results; algorithm model checked in SearchAlgo.tla",
}
PROPERTIES["C19"] = {
    "run": props_algo.c19, "level": "model_checking",
    "text": "neighbourhood scans of the three predecessor searches are counted through a derived graph type and recorded; TLC "
            "checks scans1<=V, scans2<=V+E, Dijkstra scans<=V+E+1 on every record: all small graphs (exhaustive), random graphs, and "
            "path-explosive families (layered graphs with w^k shortest paths, grids, complete DAGs, zero-weight cycles); "
            "SearchAlgo.tla model checks the bounds on the algorithm models",
    "note": _ALGO_NOTE + "; the bound is on the number of getOutNeighbours calls, as the property states",
    "technique": "scan counting via template graph type; TLC validation of scan counts in records; algorithm models with scan counters model checked",
}

def c07_run(pid, tier, seed):
    """Rejected calls: graph operations (Machine.tla with bad arguments) and searches /
    subgraphs (Derived.tla reject modes), in the plain and in the ASan+UBSan build."""
    q = tier == "quick"
    violations, cov_parts = [], []
    gh = vf.build_gh("o1")
    scns = props_machine.c07(tier)
    res, v = props_machine.run_scenarios(pid, scns, seed, gh)
    violations += v
    mcov = props_machine.coverage_of(res, scns)
    # same transition graphs under AddressSanitizer + UBSan (smaller bounds in the quick tier)
    gh_asan = vf.build_gh("asan")
    scns_a = props_machine.c07("quick")
    for s in scns_a:
        s.name += "-asan"
        s.trace = None
        s.reps = 1
        if q and s.maxn > 1:
            s.maxn = 1
            s.name = s.name.replace("2bad", "1bad")
    res_a, v = props_machine.run_scenarios(pid, scns_a, seed, gh_asan)
    violations += v
    acov = props_machine.coverage_of(res_a, scns_a)
    # searches and subgraph extraction
    ah = vf.build_ah("o1")
    ares, v = props_algo.run_all(pid, props_algo.c07_algo_sets(tier), [], seed, ah, validate=False)
    violations += v
    ah_asan = vf.build_ah("asan")
    sets_a = props_algo.c07_algo_sets(tier)
    for cs in sets_a:
        cs.name += "-asan"
    ares_a, v = props_algo.run_all(pid, sets_a, [], seed, ah_asan, validate=False)
    violations += v
    _add_suite(pid, violations, mcov)
    algo_cases = sum((r.get("ah") or {}).get("cases", 0) for r in ares)
    algo_runs = sum((r.get("ah") or {}).get("runs", 0) for r in ares + ares_a)
    rejected_transitions = mcov["rejected_call_transitions_executed"]
    cov = {
        "evaluations": mcov["impl_executions"] + acov["impl_executions"] + algo_runs,
        "distinct_nontrivial": rejected_transitions + algo_cases,
        "rule": "every (reachable state, entry point, argument position, bad value in {size, size+1, UINT_MAX}, flag "
                "combination) instance generated by TLC from Machine.tla (graph operations, incl. resize-to-smaller, "
                "setEdgeLabel/getEdgeLabel/getEdgeWeight on a missing edge) and from Derived.tla (searches, path "
                "reconstruction, subgraph extraction); distinct = distinct rejected transitions of the specification's "
                "state graph + distinct search/subgraph cases; each is executed on the real classes and must throw the "
                "documented exception type and leave the object identical (neighbour sequences included); the whole set is "
                "re-run under AddressSanitizer+UBSan",
        "samples": (mcov["samples"] + [{"algo_case": s} for r in ares for s in ((r.get("ah") or {}).get("samples") or [])[:1]])[:6],
        "states": mcov["states"], "transitions": mcov["transitions"],
        "rejected_call_transitions_executed": rejected_transitions,
        "rejected_call_transitions_executed_under_asan": acov["rejected_call_transitions_executed"],
        "search_and_subgraph_reject_cases": algo_cases,
        "traces_validated_against_impl": mcov["traces_validated_against_impl"],
        "trace_events_validated": mcov["trace_events_validated"],
        "classes_and_label_kinds": mcov["classes_and_label_kinds"],
        "calls_exercised": mcov["calls_exercised"],
        "builds": ["g++ -O1", "clang++ -O1 -fsanitize=address,undefined"],
        "suite_rejected_calls_validated": mcov.get("suite_rejected_calls", 0),
        "suite_programs_run": mcov.get("suite_programs_run", 0),
        "scenarios": mcov["scenarios"] + acov["scenarios"],
        "exhaustive": True,
    }
    return violations, cov, MACHINE_ASSUMPTIONS + ["an out-of-bounds access is detected when it changes an outcome, crashes, "
                                                    "or is reported by AddressSanitizer/UBSan"]


PROPERTIES["C07"] = {
    "run": c07_run, "level": "fault_enumeration",
    "text": "the specification enumerates every rejected call (entry point x argument position x out-of-range value x flags, "
            "and the invalid_argument cases) in every reachable state of small graphs; TLC checks that a rejected call leaves "
            "every variable unchanged (action property) and rejected calls are interleaved with valid ones in the state graph "
            "and in recorded random histories; each instance is executed on the real classes, in a plain and in an "
            "ASan+UBSan build, comparing exception type and exact before/after state",
    "note": "bad values are size, size+1 and UINT_MAX; states up to 2 vertices (thorough: 2-3); out-of-bounds accesses are "
            "observed through outcomes, crashes and sanitizer reports",
    "technique": "TLC-enumerated fault instances from the TLA+ state machine replayed on the real classes under ASan/UBSan; TLC trace validation of histories mixing rejected and valid calls",
}

def c08_run(pid, tier, seed):
    """Edge/vertex enumeration: the cursor model EdgeIter.tla on every shape, its yielded
    sequences compared with the real traversal; plus the traversal checks that the projection
    performs in every reachable state of all eight classes (state-graph walks)."""
    import algo
    q = tier == "quick"
    fam = props_algo.NOLABEL + props_algo.LABELED[:1] + props_algo.LABELED[4:5]
    sets = [algo.IterCases("iter-d", True, 3, families=fam),
            algo.IterCases("iter-u3", False, 3, maxins=6, families=fam),
            algo.IterCases("iter-u4", False, 4, maxins=4 if q else 5, families=fam)]
    ah = vf.build_ah("o1")
    d = vf.fresh_dir(os.path.join(vf.RUN, pid, "files"))
    scale = os.path.join(d, "scale.ndjson")
    with open(scale, "w") as f:
        for shape in ("star", "instar", "revstar", "path", "gaps"):
            f.write(json.dumps({"k": "iter_scale", "shape": shape, "n": 300000 if q else 1200000}) + "\n")
    ares, violations = props_algo.run_all(pid, sets, [("iter-scale", scale, {"families": props_algo.NOLABEL})], seed, ah,
                                          validate=False)
    S = props_machine.S
    # recorded histories: ONE object goes through a whole call sequence, and the projection also
    # traverses a view obtained from edges() when the object was created
    T = props_machine.T
    tr = (lambda: T(3, 100, 6)) if q else (lambda: T(30, 200, 8, dense=(24,)))
    scns = [S("dn3", "dn", 3, reps=2, trace=tr()), S("un3", "un", 3, reps=2, trace=tr()),
            S("dl2", "dl", 2, labels=(0, 1), reps=1, trace=tr()),
            S("ul2", "ul", 2, labels=(0, 1), reps=1, trace=tr()), S("dm2", "dm", 2, reps=2, trace=tr()),
            S("um2", "um", 2, reps=2, trace=tr()),
            S("dw2", "dw", 2, reps=2, trace=tr()), S("uw2", "uw", 2, reps=2, trace=tr())]
    if not q:
        scns += [S("un4", "un", 4, reps=3), S("um3", "um", 3, mults=(0, 1, 2), maxmult=2, reps=2),
                 S("uw3", "uw", 3, reps=2)]
    gh = vf.build_gh("o1")
    mres, v = props_machine.run_scenarios(pid, scns, seed, gh, scope="C08")
    violations += v
    acov = props_algo.coverage_of(ares)
    mcov = props_machine.coverage_of(mres, scns)
    cov = {
        "states": acov["states"] + mcov["states"], "transitions": acov["transitions"] + mcov["transitions"],
        "traces_validated_against_impl": acov["cases_executed_on_impl"],
        "shapes_enumerated_by_tlc_and_traversed_on_impl": acov["cases_executed_on_impl"],
        "cursor_model_states": acov["states"],
        "reachable_states_of_all_classes_traversed": mcov["spec_transitions_executed_on_impl"],
        "classes_and_label_kinds": mcov["classes_and_label_kinds"],
        "samples": acov["samples"][:3] + mcov["samples"][:2],
        "sets": acov["sets"], "scenarios": mcov["scenarios"], "exhaustive": True,
    }
    return violations, cov, ["list orders: every order of every list (directed, <=3 vertices); every insertion sequence "
                             "of distinct pairs (undirected, <=3 vertices; <=4-5 insertions on 4 vertices)",
                             "in the state-graph walks the projection traverses edges() with range-for, pre- and "
                             "post-increment and twice, and the vertices, in every state reached"] + MACHINE_ASSUMPTIONS[:2]


PROPERTIES["C08"] = {
    "run": c08_run, "level": "model_checking",
    "text": "EdgeIter.tla models the (vertex, position) cursor of Edges::begin/++/end over adjacency sequences, with every list "
            "access guarded; every shape within the bounds (all sizes from 0, all edge sets, all list orders reachable by "
            "insertion) is an initial state and TLC checks no out-of-range access, termination, the exact yielded sequence and "
            "begin()==end() iff no edge; the yielded sequences are compared with the real traversals (range-for, pre/post "
            "increment, repeated); in addition every reachable state of all eight classes is traversed in the state-graph walks",
    "note": "exhaustive within <=3 vertices (<=4 with bounded insertions); trusted base: TLC, harness",
    "technique": "TLA+ cursor model checked by TLC on all shapes; spec-generated expected sequences compared with the real iterators; state-graph walk of all classes",
}

PROPERTIES["C13"] = {
    "run": props_algo.c13, "level": "model_checking",
    "text": "TextFormat.tla transcribes the tokenizer (first two whitespace-delimited tokens, rest of line = label text), the "
            "two loaders (stoi indices / names numbered by first appearance, grow-to-largest, forced add) and the writer over "
            "TLA+ strings; TLC checks round trip, comment/whitespace invariance and the name-table property on every file within "
            "the bounds and prints each file with the expected graph and names; the real writer's output is compared byte for "
            "byte and the real loaders' results exactly",
    "note": "bounds: graphs <=3 vertices/<=2-4 edges, files of <=1-3 lines over enumerated spellings; trusted: TLC string "
            "operators, harness/io_main.cpp",
    "technique": "TLA+ transcription of tokenizer/loader/writer model checked by TLC; spec-generated files replayed on the real codecs",
}
PROPERTIES["C14"] = {
    "run": props_algo.c14, "level": "model_checking",
    "text": "BinFormat.tla defines the record layout byte by byte (32-bit little-endian indices + fixed-width little-endian "
            "label) and the loader as a fold of forced adds; TLC checks length = edges x record size, load(write(G)) resized = "
            "G, permutation invariance of hand-made files and that the disk image is little-endian for both host byte orders, on "
            "every shape within bounds and label widths 0,1,2,4,8; the bytes written by the real writer are compared exactly "
            "with the specification's bytes and the real loader's result with the specification's; unopenable paths must "
            "raise std::runtime_error in all loaders and writers",
    "note": "float/double/int32 by equality round trip only; big-endian hosts only in the model",
    "technique": "byte-level TLA+ format specification model checked by TLC; byte-exact comparison with the real writer/loader",
}
PROPERTIES["C15"] = {
    "run": props_algo.c15, "level": "fault_enumeration",
    "text": "the binary writer is modelled as a process appending one byte per step, so TLC visits every crash point of every "
            "file within the bounds and checks that what is on disk loads to exactly the complete records; each such prefix "
            "is given to the real loader in a forked child (plain and ASan+UBSan builds): it must throw or return exactly "
            "that graph; text files containing malformed lines are enumerated from a malformed-line alphabet and must yield a "
            "graph or a std::exception, never a crash, sanitizer report, hang or foreign exception",
    "note": "bounds as stated in the evidence rule; huge-index inputs are excluded as the property allows",
    "technique": "TLC-enumerated crash points (byte-by-byte writer process) and malformed files replayed on the real loaders in sandboxed children under ASan/UBSan",
}

def c17_run(pid, tier, seed):
    """No undefined behaviour on valid use.  The specification supplies the VALID workloads
    (state graphs of the eight classes with and without force, all small inputs of the
    constructions, searches, iterators and file round trips, the random and family search
    inputs); each is executed by every build configuration.  The verdict is about the builds,
    not about the specification: (a) no crash, sanitizer report or debug-mode assertion in any
    build, (b) all builds produce the same results (digest of every outcome and complete
    projection; identical records; identical sets of cases that differ from the specification).
    A purely functional defect gives the same wrong results in every build and is not C17's."""
    import algo
    import concurrent.futures
    import hashlib
    q = tier == "quick"
    builds = ["o1", "dbg", "asan", "clang"] + ([] if q else ["o2"])
    S = props_machine.S
    F = (False, True)
    fo = props_machine._force_ops
    scns = [S("dn3", "dn", 3 if not q else 2, reps=1), S("un3", "un", 3, reps=1),
            S("dl2", "dl", 2, labels=(0, 1), reps=1), S("ul2", "ul", 2, labels=(0, 1), reps=1),
            S("dm2", "dm", 2, reps=1), S("um2", "um", 2, reps=1), S("dw2", "dw", 2, reps=1), S("uw2", "uw", 2, reps=1),
            S("dn2f", "dn", 2, ops=fo("dn"), forces=F, maxcopies=2, reps=1),
            S("un2f", "un", 2, ops=fo("un"), forces=F, maxcopies=2, reps=1),
            S("um2f", "um", 2, ops=fo("um"), mults=(1, 2), maxmult=3, forces=F, maxcopies=2, reps=1),
            S("dw2f", "dw", 2, ops=fo("dw"), forces=F, maxcopies=2, reps=1)]
    violations = []
    os.makedirs(vf.REPLAYS, exist_ok=True)

    # ---- graph objects: one transition file per scenario, walked by every build
    exes = {b: vf.build_gh(b) for b in builds}
    with concurrent.futures.ThreadPoolExecutor(max_workers=4) as ex:
        emitted = list(ex.map(lambda s: machine_emit(pid, s), scns))
    per_build = {b: {"state_graph_transitions_executed": 0, "object_executions": 0, "cases": 0, "case_runs": 0} for b in builds}
    jobs = [(s, path, b) for (s, (path, _)) in zip(scns, emitted) for b in builds]

    def walk(job):
        s, path, b = job
        return job, __import__("machine").walk_file(pid, s, exes[b], path, b, {"compare": False})
    digests = {}
    with concurrent.futures.ThreadPoolExecutor(max_workers=6) as ex:
        for (s, path, b), r in ex.map(walk, jobs):
            if r["summary"] is None or "Sanitizer" in r["stderr"] or "Error: attempt" in r["stderr"] or r["rc"] not in (0,):
                rp = os.path.join(vf.REPLAYS, "%s-%s-%s-crash.json" % (pid, s.name, b))
                note = r["note"] or {}
                note.update({"kind": "walk", "crashed": True, "build": b, "rc": r["rc"], "stderr": r["stderr"]})
                with open(rp, "w") as f:
                    json.dump(note, f, indent=1)
                first = [l for l in r["stderr"].splitlines() if "ERROR" in l or "Error" in l or "runtime error" in l][:1]
                violations.append({"replay": rp, "what": "[build %s] %s: harness ended with status %s on %s %s" %
                                   (b, s.name, r["rc"], json.dumps(note.get("call"))[:120], " | ".join(first)[:200])})
                continue
            w = r["summary"]
            digests.setdefault(s.name, {})[b] = w["digest"]
            per_build[b]["state_graph_transitions_executed"] += w["transitions"]
            per_build[b]["object_executions"] += w["executions"]
    for name, dg in digests.items():
        if len(set(dg.values())) > 1:
            rp = os.path.join(vf.REPLAYS, "%s-%s-digests.json" % (pid, name))
            with open(rp, "w") as f:
                json.dump({"kind": "digest", "scenario": name, "digests": dg}, f, indent=1)
            violations.append({"replay": rp, "what": "%s: the builds disagree on the results of the same calls: %s" % (name, json.dumps(dg))})

    # ---- constructions, searches, iterators, file codecs: cases enumerated once, run by every build
    C = algo.Cases
    a_sets = [C("rev", "labeled", "reverse", 2, (0, 1)), C("tod", "labeled", "todirected", 2 if q else 3, (0, 1)),
              C("tou", "nolabel", "toundirected", 3), C("el", "labeled", "edgelist", 3, (0, 1), maxlen=2),
              C("elm", "multi", "edgelist", 3, (0, 1, 2), maxlen=2),
              C("elw", "weighted", "edgelist", 3, attrs_def="AttrsNeg", maxlen=2),
              C("sg", "labeled", "subgraphU", 3, (0, 1)),
              C("bfsd", "nolabel", "searchD", 3, families=props_algo.NOLABEL),
              C("bfsu", "nolabel", "searchU", 3 if q else 4, families=props_algo.NOLABEL),
              C("dijd", "weighted", "dijkstraD", 2, (0, 1, 2)), C("diju", "weighted", "dijkstraU", 3, (0, 1, 2)),
              algo.IterCases("it-d", True, 2 if q else 3, families=props_algo.NOLABEL),
              algo.IterCases("it-u", False, 3, maxins=4, families=props_algo.NOLABEL)]
    B, T = algo.BinCases, algo.TextCases
    i_sets = [B("brt-d2", True, 2, "roundtrip"), B("brt-u0", False, 0, "roundtrip"),
              B("brt-d8", True, 8, "roundtrip", labels=(2, 258)), B("brec", False, 2, "records"),
              T("trt-s", True, "string", "roundtrip"), T("trt-n", False, "none", "roundtrip"),
              T("trt-i", False, "int", "roundtrip", maxn=2), T("tld", True, "string", "load", maxedges=1, lineset="small"),
              T("tnm", True, "string", "named", maxedges=2, lineset="tiny")]
    for cs in a_sets:
        props_algo.with_families(cs)
    with concurrent.futures.ThreadPoolExecutor(max_workers=5) as ex:
        a_files = list(ex.map(lambda cs: algo.emit_cases(pid, cs), a_sets))
        i_files = list(ex.map(lambda cs: algo.emit_cases(pid, cs), i_sets))
    fd = vf.fresh_dir(os.path.join(vf.RUN, pid, "files"))
    sp = os.path.join(fd, "search.ndjson")
    props_algo.write_search_cases(sp, seed, "quick", light=True)

    def one_build(b):
        ah, io = vf.build_ah(b), vf.build_ioh(b)
        res = []
        for cs, (path, _) in zip(a_sets, a_files):
            ep = {"options": {"recon": True}}
            if cs.families:
                ep["families"] = cs.families
            res.append(algo.run_ah_on_file(pid, "%s-%s" % (cs.name, b), path, ah, seed, extra_plan=ep))
        res.append(algo.run_ah_on_file(pid, "search-files-" + b, sp, ah, seed,
                                       extra_plan={"families": props_algo.NOLABEL + ["multigraph+weighted classes"],
                                                   "options": {"recon": True}}))
        for cs, (path, _) in zip(i_sets, i_files):
            res.append(algo.run_ah_on_file(pid, "%s-%s" % (cs.name, b), path, io, seed))
        return b, res

    outcome = {}
    with concurrent.futures.ThreadPoolExecutor(max_workers=3) as ex:
        for b, res in ex.map(one_build, builds):
            for r in res:
                name = r["cases"][: -len(b) - 1] if r["cases"].endswith("-" + b) else r["cases"]
                a = r.get("ah")
                if a is None:
                    crash = r.get("crash") or {}
                    rp = os.path.join(vf.REPLAYS, "%s-%s-%s-crash.json" % (pid, name, b))
                    note = crash.get("note") or {}
                    note.update({"kind": "algo", "crashed": True, "build": b, "rc": crash.get("rc"), "stderr": crash.get("stderr")})
                    with open(rp, "w") as f:
                        json.dump(note, f, indent=1)
                    first = [l for l in (crash.get("stderr") or "").splitlines() if "ERROR" in l or "Error" in l or "runtime error" in l][:1]
                    violations.append({"replay": rp, "what": "[build %s] %s: harness ended with status %s on case %s %s" %
                                       (b, name, crash.get("rc"), json.dumps(note.get("case"))[:160], " | ".join(first)[:200])})
                    continue
                rec_hash = ""
                if r.get("records"):
                    with open(r["records"], "rb") as f:
                        # the family names inside records do not depend on the build
                        rec_hash = hashlib.sha256(f.read()).hexdigest()[:16]
                outcome.setdefault(name, {})[b] = {"failures": a["failures"], "notes": a["fail_notes"], "records": rec_hash,
                                                   "cases": a["cases"]}
                per_build[b]["cases"] += a["cases"]
                per_build[b]["case_runs"] += a["runs"]
    for name, ob in outcome.items():
        sig = {b: json.dumps([v["failures"], v["records"], v["cases"]]) for b, v in ob.items()}
        if len(set(sig.values())) > 1:
            rp = os.path.join(vf.REPLAYS, "%s-%s-builds.json" % (pid, name))
            with open(rp, "w") as f:
                json.dump({"kind": "digest", "cases": name, "per_build": ob}, f, indent=1)
            violations.append({"replay": rp, "what": "%s: the builds disagree: %s" % (name, json.dumps(sig)[:300])})

    evaluations = sum(v["object_executions"] + v["case_runs"] for v in per_build.values())
    distinct = max(v["state_graph_transitions_executed"] + v["cases"] for v in per_build.values())
    samples = []
    for (s, (path, _)) in list(zip(scns, emitted))[:2]:
        with open(path) as f:
            line = f.readline()
        try:
            tr = json.loads(json.loads(line))
            samples.append({"scenario": s.name, "transition": {"from": tr["from"], "call": tr["c"], "out": tr["out"]}})
        except Exception:
            pass
    for b in builds:
        per_build[b]["compiler_flags"] = " ".join([vf.BUILD_CONFIGS[b][0]] + vf.BUILD_CONFIGS[b][1])
    cov = {
        "evaluations": evaluations,
        "distinct_nontrivial": distinct,
        "rule": "valid workloads generated from the specification: every transition of the state graphs of the eight classes "
                "(force on and off, <=2-3 vertices), every small input of the constructions, searches (incl. random and "
                "path-explosive graphs), iterators and file round trips; rejected calls and malformed files are excluded "
                "(C07/C15); distinct = distinct spec transitions + distinct cases (each is run in every build); verdict: no crash, "
                "ASan/UBSan report or _GLIBCXX_DEBUG assertion in any build, and identical results in all builds (digests of "
                "outcomes and complete projections, identical search/remap records, identical deviations from the specification)",
        "samples": samples or [{"note": "none"}],
        "builds": per_build,
        "spec_states": sum(p["distinct"] for (_, p) in emitted + a_files + i_files),
        "spec_transitions": sum(p["generated"] for (_, p) in emitted + a_files + i_files),
    }
    return violations, cov, ["undefined behaviour is observed only through crashes, result differences between builds, "
                             "AddressSanitizer, UndefinedBehaviorSanitizer and libstdc++ debug-mode assertions; reads of "
                             "uninitialised values are seen only if they change a result (no MemorySanitizer runtime for libstdc++)",
                             "the harness itself is compiled as C++17; the library headers are those of the working tree",
                             "a functional defect that is identical in every build is deliberately not reported here"]


def machine_emit(pid, scn):
    import machine
    return machine.emit_transitions(pid, scn)


PROPERTIES["C17"] = {
    "run": c17_run, "level": "exploration",
    "text": "the TLA+ specification cannot state 'no UB'; it supplies the set of valid histories and inputs (exactly the "
            "quantifier of C01-C16): TLC's transition graphs and enumerated cases are saved and executed by g++ -O1, g++ -O0 with "
            "libstdc++ debug mode, clang -O2 and clang -O1 with ASan+UBSan (and g++ -O2 in the thorough tier); a crash, sanitizer "
            "report or debug assertion in any build, or any difference between the builds' results, is a violation",
    "note": "exploration with instrumented-execution oracles; MSan not available; coverage = the spec-generated workloads listed in the evidence",
    "technique": "spec-generated valid workloads (TLC transition graphs and enumerated cases) replayed under sanitizers and debug-mode standard library; cross-build result digests",
}

def c18_run(pid, tier, seed):
    """Concurrent read-only use: Readers.tla model checked over all interleavings; the real
    const entry points run by real threads under ThreadSanitizer; empty write sets shown on
    the real objects; the merged Begin/End log validated by TLC (ReadersTrace.tla)."""
    import concurrent.futures
    import shutil
    import algo
    q = tier == "quick"
    violations = []
    d = vf.fresh_dir(os.path.join(vf.RUN, pid, "readers"))
    os.makedirs(vf.REPLAYS, exist_ok=True)
    # 1. the design: all interleavings of 2 (3) threads x 2 operations
    consts = {"Threads": "= {1, 2}" if q else "= {1, 2, 3}", "Ops": "<- OpsPure", "Cells": "<- CellsAll",
              "ReadSeq": "<- ReadPure", "WriteCells": "<- WriteNone", "MaxOps": "= 2" if q else "= 1"}
    cfg = vf.write_cfg(os.path.join(d, "ReadersMC.cfg"), consts, invariants=["RaceFree", "Deterministic", "Unmodified"])
    log = os.path.join(d, "tlc.log")
    with open(log, "wb") as f:
        subprocess.run(vf.tlc_cmd("ReadersMC.tla", cfg, os.path.join(d, "md"), workers=8), cwd=vf.SPEC, stdout=f,
                       stderr=subprocess.STDOUT, timeout=3000, env=algo._env())
    tl = vf.parse_tlc_output(open(log, errors="replace").read())
    shutil.rmtree(os.path.join(d, "md"), ignore_errors=True)
    if tl["violation"]:
        violations.append({"replay": log, "what": "Readers.tla: " + tl["violation"]})
    elif not tl["ok"]:
        raise vf.Infra("TLC did not finish on ReadersMC: %s (%s)" % (tl["error"], log))
    # 2. real threads
    runs = []
    LARGE_FIRST = ["write_files", "copy_and_equality", "observers", "stream_output", "subgraph", "bfs_searches",
                   "reverse", "to_undirected", "to_directed", "dijkstra"]
    confs = [("tsan", 4, 25 if q else 150, None), ("o1", 8, 60 if q else 600, None)]
    # (each first-op experiment twice, with 8 threads: whether two threads really overlap in their first call
    # depends on the scheduler, in particular on a loaded machine)
    confs += [("tsan", 8, 1 if q else 3, f) for f in LARGE_FIRST for _rep in range(2 if q else 3)]
    confs += [("o1", 8, 4 if q else 20, "write_files")]

    import threading
    _conc_lock, _conc_count = threading.Lock(), [0]

    def conc_run(conf):
        build, threads, iters, large = conf
        exe = vf.build_ch(build)
        with _conc_lock:
            _conc_count[0] += 1
            serial = _conc_count[0]
        tag = build + ("-large-%s-%d" % (large, serial) if large else "")
        rd = vf.fresh_dir(os.path.join(vf.RUN, pid, "conc-" + tag))
        logs = vf.fresh_dir(os.path.join(rd, "logs"))
        plan = {"threads": threads, "iterations": iters, "seed": int(seed), "vertices": 8 if q else 10,
                "tmp": vf.fresh_dir(os.path.join(rd, "tmp")), "log_dir": logs}
        if large:
            # a large sparse shared graph (> 1024 vertices, a hub of degree 70); readers run before
            # anything else has been called in the process, the baseline is taken afterwards
            plan.update({"large": True, "vertices": 1300 if q else 2600, "first_op": large})
        planf = os.path.join(rd, "plan.json")
        with open(planf, "w") as f:
            json.dump(plan, f)
        env = dict(os.environ)
        env["TSAN_OPTIONS"] = "halt_on_error=0 exitcode=66 report_signal_unsafe=0"
        try:
            r = subprocess.run([exe, planf], stdout=subprocess.PIPE, stderr=subprocess.PIPE, timeout=900 if q else 2400, env=env)
        except subprocess.TimeoutExpired as te:
            # readers that never finish (the unchanged tree needs seconds): e.g. a container corrupted by a race
            path = os.path.join(vf.REPLAYS, "%s-conc-%s-hang.txt" % (pid, tag))
            with open(path, "w") as f:
                f.write("plan: %s\n\n%s" % (json.dumps(plan), (te.stderr or b"").decode(errors="replace")[-20000:]))
            runs.append({"build": build, "threads": threads, "iterations": iters, "summary": None, "rc": "timeout",
                         "tsan_reports": 0, "logs": logs, "large_first_op": large})
            violations.append({"replay": path, "what": "concurrent readers (%s build%s) did not finish within the time limit" %
                               (build, ", large graph, all threads starting in " + large if large else "")})
            return
        out, err = r.stdout.decode(errors="replace"), r.stderr.decode(errors="replace")
        summary = None
        for ln in out.splitlines():
            if ln.startswith("SUMMARY "):
                summary = json.loads(ln[8:])
        races = err.count("WARNING: ThreadSanitizer")
        runs.append({"build": build, "threads": threads, "iterations": iters, "summary": summary, "rc": r.returncode,
                     "tsan_reports": races, "logs": logs, "large_first_op": large})
        if races or "ThreadSanitizer" in err:
            path = os.path.join(vf.REPLAYS, "%s-tsan-%s.txt" % (pid, tag))
            with open(path, "w") as f:
                f.write(err[:200000])
            first = [l for l in err.splitlines() if "data race" in l or "#0" in l][:3]
            violations.append({"replay": path, "what": "ThreadSanitizer: %d report(s): %s" % (races, " | ".join(first)[:300])})
        if summary is None:
            path = os.path.join(vf.REPLAYS, "%s-conc-%s-crash.txt" % (pid, tag))
            with open(path, "w") as f:
                f.write(err[-20000:])
            if not races:
                violations.append({"replay": path, "what": "concurrent harness (%s build) died with status %s" % (build, r.returncode)})
            return
        for c in summary["classes"]:
            if c["write_set_violations"] or c["result_mismatches"]:
                path = os.path.join(vf.REPLAYS, "%s-conc-%s-%s.json" % (pid, tag, c["class"]))
                with open(path, "w") as f:
                    json.dump({"kind": "conc", "build": build, "plan": plan, "class": c}, f, indent=1)
                violations.append({"replay": path, "what": "%s (%s build): %s" % (c["class"], build,
                                   "; ".join(c["write_set_violations"] + ["thread result differs from the sequential one: " + m
                                                                             for m in c["result_mismatches"]])[:300])})
    vf.build_ch("tsan")
    vf.build_ch("o1")
    for conf in confs[:2]:
        conc_run(conf)
    with concurrent.futures.ThreadPoolExecutor(max_workers=3) as ex:
        list(ex.map(conc_run, confs[2:]))
    # 3. TLC validation of the merged Begin/End logs
    validated, events, overlaps = 0, 0, 0
    jobs = []
    for run in runs:
        if run["summary"] is None:
            continue
        for fn in sorted(os.listdir(run["logs"])):
            jobs.append((run["build"], os.path.join(run["logs"], fn)))

    def val(job):
        build, path = job
        vd = path + ".d"
        os.makedirs(vd, exist_ok=True)
        cfgp = vf.write_cfg(os.path.join(vd, "ReadersTrace.cfg"), {}, init="TInit", nxt="TNext", invariants=["ReportOverlaps"],
                            postcondition="TraceAccepted")
        txt = open(cfgp).read().replace("CONSTANTS\n", "")
        open(cfgp, "w").write(txt)
        env = algo._env()
        env["TRACE"] = path
        r = subprocess.run(vf.tlc_cmd("ReadersTrace.tla", cfgp, os.path.join(vd, "md"), workers=1, heap="2g"), cwd=vf.SPEC,
                           stdout=subprocess.PIPE, stderr=subprocess.STDOUT, timeout=3000, env=env)
        text = r.stdout.decode(errors="replace")
        shutil.rmtree(os.path.join(vd, "md"), ignore_errors=True)
        with open(os.path.join(vd, "tlc.log"), "w") as f:
            f.write(text)
        p = vf.parse_tlc_output(text)
        n = sum(1 for _ in open(path))
        m = re.search(r'<<"OVERLAPS", (\d+)>>', text)
        return {"path": path, "build": build, "events": n, "accepted": bool(p["ok"] and (p["depth"] or 0) == n),
                "matched": p["depth"], "overlaps": int(m.group(1)) if m else 0, "error": p["error"], "log": os.path.join(vd, "tlc.log")}

    with concurrent.futures.ThreadPoolExecutor(max_workers=6) as ex:
        vals = list(ex.map(val, jobs))
    for v in vals:
        if v["accepted"]:
            validated += 1
            events += v["events"]
            overlaps += v["overlaps"]
        else:
            if v["matched"] in (None, 0, 1) and v["error"] and "Postcondition" not in v["error"]:
                raise vf.Infra("log validation failed to run: %s (%s)" % (v["error"], v["log"]))
            path = os.path.join(vf.REPLAYS, "%s-log-%s-%s" % (pid, v["build"], os.path.basename(v["path"])))
            shutil.copy(v["path"], path)
            violations.append({"replay": path, "what": "concurrent log rejected at event %s of %d: a thread's result differs "
                                                        "from the sequential one, or Begin/End do not alternate" % (v["matched"], v["events"])})
    ops = sorted({o for run in runs if run["summary"] for c in run["summary"]["classes"] for o in c["ops"]})
    total_ops = sum(c["threads"] * c["iterations_per_thread_per_phase"] * (len(c["ops"]) if c["class"].endswith("[large]") else 2)
                    for run in runs if run["summary"] for c in run["summary"]["classes"])
    cov = {
        "evaluations": total_ops,
        "distinct_nontrivial": sum(len(c["ops"]) for run in runs[:1] if run["summary"] for c in run["summary"]["classes"]),
        "rule": "Readers.tla is model checked over ALL interleavings of 2-3 reader threads (RaceFree, Deterministic, Unmodified "
                "hold iff no operation writes shared cells); on the real code every const entry point group (observers and edge/vertex "
                "iteration, state, copy+equality, stream output, subgraph extraction, all BFS searches, reversal, conversions, "
                "Dijkstra, file writers to distinct files) of eight classes is (a) shown to leave the object's bytes and containers "
                "unchanged, (b) run by 4 threads under ThreadSanitizer and by 8 threads in an optimised build with every result "
                "compared to the sequential one, (c) run on a large sparse shared graph (> 1024 vertices, hub of degree 70) in one fresh "
                "process per entry-point group in which all threads call that group FIRST and simultaneously, the sequential baseline "
                "being taken afterwards (first-use initialisation and size/degree-threshold paths under contention); "
                "distinct = (class, entry-point group) pairs; evaluations = operations run by threads",
        "samples": [{"class": c["class"], "ops": c["ops"]} for run in runs[:1] if run["summary"] for c in run["summary"]["classes"][:3]],
        "states": tl["distinct"], "transitions": tl["generated"],
        "traces_validated_against_impl": validated, "trace_events_validated": events,
        "begin_events_overlapping_another_operation": overlaps,
        "tsan_reports": sum(r["tsan_reports"] for r in runs),
        "entry_point_groups": ops,
        "runs": [{k: r[k] for k in ("build", "threads", "iterations", "rc", "tsan_reports", "large_first_op")} for r in runs],
    }
    return violations, cov, ["the data-race verdict rests on ThreadSanitizer over the schedules that actually occurred (not all "
                             "schedules); the all-interleavings argument is on the model and needs the write sets to be empty, which is "
                             "checked on the real objects by before/after snapshots of object bytes and container contents",
                             "libstdc++ is not TSan-instrumented; races inside it are seen only through interceptors"]


PROPERTIES["C18"] = {
    "run": c18_run, "level": "exploration",
    "text": "Readers.tla: all interleavings of reader threads over memory-cell accesses; race freedom and determinism hold iff "
            "every operation's write set is empty (negative config with a caching operation fails both); on the real classes the "
            "write sets are shown empty by byte/container snapshots, threads run every const entry point group under "
            "ThreadSanitizer, all results are compared with the sequential ones and the merged Begin/End log is validated by TLC",
    "note": "schedules on the real code are sampled, not enumerated; TSan is the race oracle",
    "technique": "TLA+ interleaving model checked by TLC + TLC validation of logs from real threads + ThreadSanitizer + write-set snapshots",
}

NOT_APPLICABLE = {
    "C20": "compile-/link-time well-formedness of templates and headers: there is no state, transition or observable "
           "behaviour for a TLA+ specification to describe or for a trace to bind (DESIGN.md section 5)",
}


def match_known(pid, violation, known):
    for k in known.get("open", []):
        if pid not in k.get("properties", []):
            continue
        if re.search(k["match"], violation.get("what", "")):
            return k["what"]
    return None


def replay(pid, path):
    """bin/check <id> --replay <file>: re-run one reported case in isolation."""
    import tempfile
    import algo
    with open(path) as f:
        try:
            r = json.load(f)
        except Exception:
            print(open(path).read()[:20000])
            return 1
    kind = r.get("kind")
    d = vf.fresh_dir(os.path.join(vf.RUN, "replay"))
    if r.get("crashed"):
        print(json.dumps({k: v for k, v in r.items() if k != "stderr"}, indent=1)[:6000])
        print("--- stderr of the harness ---")
        print((r.get("stderr") or "")[-6000:])
        print("REPLAY: the harness died on this call/case (re-running it in isolation:)")
    if kind in ("walk", "walkpair") and "group" in r and ("call" in r or "act" in r):
        gh = vf.build_gh(r.get("build", "o1") if r.get("build") in vf.BUILD_CONFIGS else "o1")
        return subprocess.run([gh, "replay", path]).returncode
    if kind in ("algo", "io") and r.get("case"):
        cf = os.path.join(d, "case.ndjson")
        with open(cf, "w") as f:
            f.write(json.dumps(r["case"]) + "\n")
        exe = vf.build_ioh("o1") if (kind == "io" or str(r["case"].get("k", "")).startswith(("bin_", "text_", "big_bin", "big_text", "unopenable"))) else vf.build_ah("o1")
        extra = {"families": [r["family"]]} if r.get("family") else None
        res = algo.run_ah_on_file("replay", "case", cf, exe, 1, extra_plan=extra)
        a = res.get("ah")
        if a is None:
            print("REPLAY: the harness died again:", json.dumps(res.get("crash"))[:3000])
            return 1
        print(json.dumps({"failures": a["failures"], "notes": a["fail_notes"]}, indent=1))
        print("REPLAY: diverges" if a["failures"] else "REPLAY: conforms")
        return 1 if a["failures"] else 0
    if kind == "record" and r.get("record", {}).get("k") in ("bfs", "dijkstra", "remap"):
        rf = os.path.join(d, "record.ndjson")
        with open(rf, "w") as f:
            f.write(json.dumps(r["record"]) + "\n")
        v = algo.validate_records("replay", "record", rf, invariants=("AllResultsOK", "AllScansOK"))
        print(json.dumps(r["record"])[:3000])
        print("REPLAY: TLC (SearchTrace.tla) " + ("rejects" if v["rejected"] else "accepts") + " this record")
        return 1 if v["rejected"] else 0
    if kind == "tlc":
        print(open(r["log"]).read()[-20000:])
        return 1
    if kind == "suite-event":
        x = suite.explain(path)
        print(json.dumps(x, indent=1)[:20000])
        print("REPLAY: TLC (SuiteTrace.tla) " + ("accepts" if x.get("accepted") else "rejects") + " this event")
        return 0 if x.get("accepted") else 1
    print(json.dumps(r, indent=1)[:20000])
    return 1


