"""code -> spec on executions nobody in /verif wrote: the repository's own test programs, compiled
against an instrumented COPY of the working tree's headers (lib/instrument.py,
harness/bgv_trace.hpp), log every outermost mutator call with the raw representation before and
after it; TLC (spec/SuiteTrace.tla) requires Step(pre, call) = <outcome, post> of every event."""
import concurrent.futures
import fcntl
import glob
import hashlib
import json
import os
import re
import shutil
import subprocess
import time
from decimal import Decimal
from fractions import Fraction

import instrument
import vf

TESTS = os.path.join(vf.REPO, "tests")
NONE_L = -99
WIDE = 1 << 30
# property -> groups (Directed, Kind) whose events it judges
GROUPS = {
    "C01": [(True, "nolabel")], "C02": [(False, "nolabel")],
    "C03": [(True, "labeled"), (False, "labeled")],
    "C04": [(True, "multi"), (False, "multi")],
    "C05": [(True, "weighted"), (False, "weighted")],
}
GROUPS["C07"] = [g for gs in list(GROUPS.values()) for g in gs]       # rejected calls of every class
INVARIANT = {"C07": "RejectedOK"}
CLS = {"DL": True, "UL": False, "DM": True, "UM": False, "DW": True, "UW": False}


# --------------------------------------------------------------------------- build and run
def build_suite():
    """-> (directory with the instrumented test programs, [names], instrumentation report)"""
    tracer = os.path.join(vf.HARNESS, "bgv_trace.hpp")
    key = vf.tree_hash([vf.INCLUDE, TESTS, tracer, instrument.__file__])
    repotag = hashlib.sha256(vf.REPO.encode()).hexdigest()[:6]
    prefix = "suite-%s-" % repotag
    d = os.path.join(vf.BUILD, prefix + key)
    done = os.path.join(d, "done.json")
    if os.path.exists(done):
        return d, json.load(open(done))
    os.makedirs(vf.BUILD, exist_ok=True)
    lock = open(os.path.join(vf.BUILD, prefix + "lock"), "w")
    fcntl.flock(lock, fcntl.LOCK_EX)
    try:
        if os.path.exists(done):
            return d, json.load(open(done))
        for f in os.listdir(vf.BUILD):
            if f.startswith(prefix) and not f.endswith("lock"):
                shutil.rmtree(os.path.join(vf.BUILD, f), ignore_errors=True)
        os.makedirs(d)
        t0 = time.time()
        report = instrument.instrument_tree(vf.INCLUDE, os.path.join(d, "include"))
        srcs = sorted(glob.glob(os.path.join(TESTS, "test_*.cpp")))
        jobs = []
        for s in srcs:
            name = os.path.basename(s)[:-4]
            exe = os.path.join(d, name)
            jobs.append((["g++", "-std=c++17", "-O1", "-g0", "-w", "-I" + os.path.join(d, "include"), "-I" + TESTS,
                          "-include", tracer, s, "-o", exe, "-lgtest", "-lgtest_main", "-pthread"], exe))
        with concurrent.futures.ThreadPoolExecutor(max_workers=vf.NCPU) as ex:
            results = list(ex.map(vf._compile, jobs))
        built, failed = [], []
        for rc, out, err, cmd in results:
            (built if rc == 0 else failed).append(os.path.basename(out))
            if rc != 0:
                vf.log("[suite] %s does not compile against the instrumented headers:\n%s" % (os.path.basename(out), err[-1500:]))
        if not built:
            # the recorder reads the representation (member names, key type of the label map): a tree whose
            # representation it cannot read is simply not recorded - less coverage, never a failure of the check
            vf.log("[suite] no test program compiles against the instrumented headers: the test-suite events are skipped")
        info = {"programs": built, "not_built": failed,
                "hooks": {f: [op for op, _ in found] for f, found in report.items()}}
        with open(done, "w") as f:
            json.dump(info, f)
        vf.log("[build] %d instrumented test programs in %.1fs (%d hooks)" %
               (len(built), time.time() - t0, sum(len(v) for v in info["hooks"].values())))
        return d, info
    finally:
        fcntl.flock(lock, fcntl.LOCK_UN)
        lock.close()


def run_suite(pid, d, info, maxn=8):
    """run every instrumented test program; -> (list of (program, raw event), summary)"""
    scratch = vf.fresh_dir(os.path.join(vf.RUN, pid, "suite"))
    events, summary = [], {"programs_run": 0, "events_logged": 0, "skipped_large": 0, "nested_calls": 0,
                           "programs_failed": []}

    def one(name):
        cwd = os.path.join(scratch, "cwd-" + name)
        os.makedirs(cwd)
        env = dict(os.environ, BGV_TRACE=os.path.join(scratch, "tr-" + name), BGV_MAXN=str(maxn))
        try:
            r = subprocess.run([os.path.join(d, name)], cwd=cwd, env=env, stdout=subprocess.DEVNULL,
                               stderr=subprocess.DEVNULL, timeout=600)
            rc = r.returncode
        except subprocess.TimeoutExpired:
            rc = "timeout"
        shutil.rmtree(cwd, ignore_errors=True)
        return name, rc

    with concurrent.futures.ThreadPoolExecutor(max_workers=vf.NCPU) as ex:
        rcs = list(ex.map(one, info["programs"]))
    for name, rc in rcs:
        summary["programs_run"] += 1
        if rc != 0:
            # a failing test is the test suite's business, not this check's: its events are still judged
            summary["programs_failed"].append("%s rc=%s" % (name, rc))
        for p in glob.glob(os.path.join(scratch, "tr-" + name + ".*.ndjson")):
            with open(p) as f:
                for line in f:
                    try:
                        e = json.loads(line)
                    except ValueError:
                        continue              # a line cut by a dying process
                    if "summary" in e:
                        summary["skipped_large"] += e["summary"]["skipped_large"]
                        summary["nested_calls"] += e["summary"]["nested"]
                    else:
                        events.append((name, e))
            os.remove(p)
    summary["events_logged"] = len(events)
    return events, summary


# --------------------------------------------------------------------------- normalisation
class Skip(Exception):
    pass


class Malformed(Exception):
    """the logged post-state is outside anything the representation can legally hold"""


def _is_default(v):
    if v is None or v == 0:
        return True
    if isinstance(v, dict):
        if "s" in v:
            return v["s"] == ""
        if "f" in v:
            return Fraction(Decimal(v["f"])) == 0
    return False


def _frac(v):
    if isinstance(v, dict) and "f" in v:
        return Fraction(Decimal(v["f"]))
    if isinstance(v, int) and not isinstance(v, bool):
        return Fraction(v)
    raise Skip("non-numeric weight")


def _opaque(v):
    return isinstance(v, dict) and "x" in v


def _matrix(n, fill):
    return [[fill] * n for _ in range(n)]


def _enc_state(raw, lab_of, tot, what):
    n = raw["n"]
    adj = _matrix(n, 0)
    lists = raw["adj"][:n] + [[]] * max(0, n - len(raw["adj"]))
    for i, lst in enumerate(lists):
        for j in lst:
            if j >= n:
                raise Malformed("%s: neighbour %d in the list of vertex %d of a %d-vertex graph" % (what, j, i, n))
            adj[i][j] += 1
    lab = _matrix(n, NONE_L)
    for i, j, v in raw["lab"]:
        if i >= n or j >= n:
            raise Malformed("%s: label stored under the pair (%d,%d) in a %d-vertex graph" % (what, i, j, n))
        lab[i][j] = lab_of(v)
    if raw["en"] >= WIDE:
        raise Malformed("%s: edge counter %d" % (what, raw["en"]))
    return {"n": n, "adj": adj, "lab": lab, "en": raw["en"], "tot": tot}


def _clipv(v):
    return v if v < WIDE else WIDE


def normalise(e):
    """raw event -> ((Directed, Kind), event for SuiteTrace.tla); raises Skip / Malformed"""
    cls, kind, op, a = e["cls"], e["kind"], e["op"], e["a"]
    directed = CLS[cls]
    pre, post = e["pre"], e["post"]
    if pre["n"] > 64 or post["n"] > 64:
        raise Skip("large")
    values = [v for _, _, v in pre["lab"]] + [v for _, _, v in post["lab"]]
    cmptot = True
    # ---- the call
    c = {"op": op}
    label_args = []
    if op == "resize":
        if a[0] >= 4096:
            raise Skip("huge resize")
        c["k"] = a[0]
    elif op in ("removeDuplicateEdges", "removeSelfLoops", "clearEdges"):
        pass
    elif op == "removeVertexFromEdgeList":
        c["v"] = _clipv(a[0])
    else:
        c["i"], c["j"] = _clipv(a[0]), _clipv(a[1])
        rest = a[2:]
        if kind in ("nolabel", "labeled"):
            if op == "addEdge" and len(rest) == 1:
                c["op"], c["f"] = "addEdgeD", rest[0]
            elif op in ("addEdge", "setEdgeLabel", "addReciprocalEdge") and len(rest) == 2:
                label_args.append(rest[0])
                c["f"] = rest[1]
            elif op == "addReciprocalEdge" and len(rest) == 1:
                label_args.append(0 if kind == "labeled" else None)   # EdgeLabel()
                c["f"] = rest[0]
            elif op == "removeEdge" and not rest:
                pass
            else:
                raise Skip("unknown signature %s/%d" % (op, len(a)))
        elif kind == "multi":
            if op in ("addEdge", "addReciprocalEdge") and len(rest) == 1:
                c["f"] = rest[0]
            elif op in ("addMultiedge", "addReciprocalMultiedge") and len(rest) == 2:
                c["k"], c["f"] = rest
            elif op in ("removeMultiedge", "setEdgeMultiplicity") and len(rest) == 1:
                c["k"] = rest[0]
            elif op == "removeEdge" and not rest:
                pass
            else:
                raise Skip("unknown signature %s/%d" % (op, len(a)))
            if "k" in c and c["k"] >= WIDE:
                raise Skip("wide multiplicity")
        else:
            if op == "addEdge" and len(rest) == 2:
                label_args.append(rest[0])
                c["f"] = rest[1]
            elif op == "addReciprocalEdge" and len(rest) == 1:
                c["f"] = rest[0]
            elif op == "setEdgeWeight" and len(rest) == 1:
                label_args.append(rest[0])
            elif op == "removeEdge" and not rest:
                pass
            else:
                raise Skip("unknown signature %s/%d" % (op, len(a)))
    values += label_args
    if any(_opaque(v) for v in values):
        raise Skip("label type the recorder cannot print")
    # ---- labels
    if kind == "nolabel":
        lab_of = lambda v: NONE_L                          # noqa: E731
        pre = dict(pre, lab=[])                            # NoLabel is never stored; not judged if it were
        post = dict(post, lab=[])
        tots = (0, 0)
        if label_args:
            c["l"] = 0
    elif kind == "labeled":
        distinct = sorted({json.dumps(v, sort_keys=True) for v in values if not _is_default(v)})
        table = {s: k + 1 for k, s in enumerate(distinct)}
        lab_of = lambda v: 0 if _is_default(v) else table[json.dumps(v, sort_keys=True)]   # noqa: E731
        tots = (0, 0)
        if label_args:
            c["l"] = lab_of(label_args[0])
    elif kind == "multi":
        if any((not isinstance(v, int)) or v >= WIDE for v in values):
            raise Skip("wide multiplicity")
        lab_of = lambda v: v                               # noqa: E731
        if pre["tot"] is None:                             # a base-class view cannot see the total
            raise Skip("no total")
        tots = (pre["tot"], post["tot"])
        if max(tots) >= WIDE:
            raise Skip("wide total")
    else:
        ws = [_frac(v) for v in values]
        if pre["tot"] is None:
            raise Skip("no total")
        tp, tq = _frac(pre["tot"]), _frac(post["tot"])
        scale = 1
        for w in ws + [tp]:
            d = w.denominator
            scale = scale * d // _gcd(scale, d)
        ok = scale <= (1 << 20) and all(abs(w * scale) < (1 << 24) for w in ws + [tp]) and (scale & (scale - 1)) == 0
        if ok:
            lab_of = lambda v: int(_frac(v) * scale)       # noqa: E731
            sq = tq * scale
            # with dyadic weights of this size every sum the code forms is exact in long double
            tots = (int(tp * scale), int(sq) if sq.denominator == 1 and abs(sq) < WIDE else WIDE + 1)
        else:
            # weights that are not small dyadic numbers: rename them like labels, the running
            # total is not compared (the specification's totals are exact sums)
            cmptot = False
            distinct = sorted({_frac(v) for v in values if _frac(v) != 0})
            table = {w: k + 1 for k, w in enumerate(distinct)}
            lab_of = lambda v: 0 if _frac(v) == 0 else table[_frac(v)]      # noqa: E731
            tots = (0, 0)
        if label_args:
            c["w"] = lab_of(label_args[0])
    if kind == "multi" or (kind == "weighted" and op == "addReciprocalEdge"):
        pass
    try:
        spre = _enc_state(pre, lab_of, tots[0], "before the call")
    except Malformed as m:
        raise Skip("pre-state outside the model: %s" % m)
    spost = _enc_state(post, lab_of, tots[1], "after %s%s" % (op, tuple(a) if all(not isinstance(x, dict) for x in a) else ""))
    if kind == "weighted" and not cmptot and op == "addReciprocalEdge":
        raise Skip("reciprocal weights under renaming")     # the deviation stores 0/1 as weights
    ev = {"c": c, "out": e["out"], "pre": spre, "post": spost, "cmptot": cmptot}
    return (directed, kind), ev


def _gcd(a, b):
    while b:
        a, b = b, a % b
    return a


# --------------------------------------------------------------------------- validation
def validate(pid, name, directed, kind, events, timeout=1800):
    inv = INVARIANT.get(pid, "EventOK")
    d = vf.fresh_dir(os.path.join(vf.RUN, pid, "suite-validate-" + name))
    path = os.path.join(d, "events.ndjson")
    with open(path, "w") as f:
        for ev in events:
            f.write(json.dumps(ev) + "\n")
    cfg = vf.write_cfg(os.path.join(d, "SuiteTrace.cfg"),
                       {"Directed": "= TRUE" if directed else "= FALSE", "Kind": '= "%s"' % kind, "Pinned": "= {}"},
                       init="TInit", nxt="TNext", invariants=[inv])
    env = dict(os.environ, EVENTS=path)
    env.pop("JAVA_TOOL_OPTIONS", None)
    r = subprocess.run(vf.tlc_cmd("SuiteTrace.tla", cfg, os.path.join(d, "md"), workers=4, heap="4g", extra=["-continue"],
                                  jvm=["-Xss64m"]),
                       cwd=vf.SPEC, stdout=subprocess.PIPE, stderr=subprocess.STDOUT, timeout=timeout, env=env)
    text = r.stdout.decode(errors="replace")
    with open(os.path.join(d, "tlc.log"), "w") as f:
        f.write(text)
    shutil.rmtree(os.path.join(d, "md"), ignore_errors=True)
    bad = sorted({int(m.group(1)) for m in re.finditer(r"Invariant %s is violated.*?idx = (\d+)" % inv, text, re.S)})
    p = vf.parse_tlc_output(text)
    if not bad and not p["ok"]:
        raise vf.Infra("validation of the test-suite events failed to run: %s (%s)" %
                       (p["error"] or "TLC did not finish", os.path.join(d, "tlc.log")))
    return bad, p["distinct"]


def run(pid, maxn=40):
    """-> (violations, coverage additions) for the property's groups"""
    d, info = build_suite()
    if not info["programs"]:
        return [], {"suite_programs_run": 0, "suite_events_logged": 0, "suite_distinct_events_validated": 0,
                    "suite_programs_not_built": info["not_built"], "states": 0,
                    "suite_note": "the instrumented copy of the headers does not compile: no test-suite events"}
    raw, summary = run_suite(pid, d, info, maxn=maxn)
    wanted = GROUPS[pid]
    per_group = {g: {} for g in wanted}
    skipped = {}
    violations = []
    os.makedirs(vf.REPLAYS, exist_ok=True)
    seen_malformed = set()
    for prog, e in raw:
        g0 = (CLS.get(e.get("cls")), e.get("kind"))
        if g0 not in per_group:
            continue
        try:
            g, ev = normalise(e)
        except Skip as s:
            k = str(s).split(":")[0]
            skipped[k] = skipped.get(k, 0) + 1
            continue
        except Malformed as m:
            if str(m) not in seen_malformed and len(seen_malformed) < 5:
                seen_malformed.add(str(m))
                path = os.path.join(vf.REPLAYS, "%s-suite-malformed%d.json" % (pid, len(seen_malformed)))
                with open(path, "w") as f:
                    json.dump({"kind": "suite-event", "program": prog, "why": str(m), "event": e}, f, indent=1)
                violations.append({"replay": path, "what": "test program %s: %s" % (prog, m)})
            continue
        key = json.dumps(ev, sort_keys=True)
        per_group[g].setdefault(key, (ev, prog, e))
    cov = {"suite_programs_run": summary["programs_run"], "suite_events_logged": summary["events_logged"],
           "suite_events_skipped": skipped, "suite_objects_too_large_to_log": summary["skipped_large"],
           "suite_nested_calls_folded": summary["nested_calls"], "suite_programs_not_built": info["not_built"],
           "suite_programs_failing": summary["programs_failed"],
           "suite_hooks_inserted": sum(len(v) for v in info["hooks"].values()),
           "suite_distinct_events_validated": 0, "suite_events_by_op": {}, "suite_rejected_calls": 0, "states": 0}
    for (directed, kind), evs in per_group.items():
        items = list(evs.values())
        if not items:
            continue
        name = ("d" if directed else "u") + kind
        bad, distinct = validate(pid, name, directed, kind, [ev for ev, _, _ in items])
        cov["states"] += distinct
        cov["suite_distinct_events_validated"] += len(items) - len(bad)
        for ev, _, _ in items:
            cov["suite_events_by_op"][ev["c"]["op"]] = cov["suite_events_by_op"].get(ev["c"]["op"], 0) + 1
            cov["suite_rejected_calls"] += ev["out"] != "ok"
        for k, b in enumerate(bad[:5]):
            ev, prog, e = items[b - 1]
            path = os.path.join(vf.REPLAYS, "%s-suite-%s-event%d.json" % (pid, name, k))
            with open(path, "w") as f:
                json.dump({"kind": "suite-event", "program": prog, "directed": directed, "graph_kind": kind,
                           "normalised": ev, "event": e}, f, indent=1)
            violations.append({"replay": path,
                               "what": "test program %s: %s%s on %s is not a step of the specification (%s)" %
                                       (prog, e["op"], json.dumps(e["a"]), json.dumps(e["pre"]), name)})
    return violations, cov


def explain(replay):
    """what the specification expects of a rejected event (bin/check --replay)"""
    r = json.load(open(replay))
    if "normalised" not in r:
        return {"why": r.get("why"), "event": r["event"]}
    d = vf.fresh_dir(os.path.join(vf.RUN, "replay", "suite"))
    path = os.path.join(d, "events.ndjson")
    with open(path, "w") as f:
        f.write(json.dumps(r["normalised"]) + "\n")
    cfg = vf.write_cfg(os.path.join(d, "SuiteTrace.cfg"),
                       {"Directed": "= TRUE" if r["directed"] else "= FALSE", "Kind": '= "%s"' % r["graph_kind"], "Pinned": "= {}"},
                       init="TInit", nxt="TNext", invariants=["Explain", "EventOK"])
    env = dict(os.environ, EVENTS=path)
    env.pop("JAVA_TOOL_OPTIONS", None)
    out = subprocess.run(vf.tlc_cmd("SuiteTrace.tla", cfg, os.path.join(d, "md"), workers=1, heap="2g"),
                         cwd=vf.SPEC, stdout=subprocess.PIPE, stderr=subprocess.STDOUT, timeout=600, env=env).stdout.decode()
    exp = None
    for line in out.splitlines():
        if line.startswith('{"'):
            try:
                exp = json.loads(line)
            except ValueError:
                pass
    return {"accepted": "Invariant EventOK is violated" not in out, "expected": exp and exp.get("expected"),
            "logged": {"out": r["normalised"]["out"], "post": r["normalised"]["post"]}, "call": r["normalised"]["c"],
            "pre": r["normalised"]["pre"], "program": r["program"]}
