"""Source instrumentation of a COPY of the repository's headers (the repository is untouched).

Inserts `BGV_SCOPE_<cls>("<op>", ::bgv::args(<parameter names>));` as the first statement of the
definition of every public mutator of the six graph-class headers.  The statement is put on the
line of the opening brace, so line numbers in compiler diagnostics are those of the working tree.
A function this module cannot find is simply not recorded (less coverage, never an alarm)."""
import os
import re
import shutil

FILES = {
    "directed_graph.hpp": "DL", "undirected_graph.hpp": "UL",
    "directed_multigraph.hpp": "DM", "undirected_multigraph.hpp": "UM",
    "directed_weighted_graph.hpp": "DW", "undirected_weighted_graph.hpp": "UW",
}
MUTATORS = ["resize", "addEdge", "addReciprocalEdge", "removeEdge", "setEdgeLabel",
            "removeDuplicateEdges", "removeSelfLoops", "removeVertexFromEdgeList", "clearEdges",
            "addMultiedge", "addReciprocalMultiedge", "removeMultiedge", "setEdgeMultiplicity",
            "setEdgeWeight"]

HEAD = re.compile(r"\bvoid\s+(?:[A-Za-z_]\w*\s*(?:<[^<>;{}()]*>)?\s*::\s*)?(%s)\s*\(" % "|".join(MUTATORS))


def _match_paren(text, i):
    """text[i] == '(' -> index of the matching ')' (no string/comment awareness needed here)"""
    depth = 0
    for k in range(i, len(text)):
        if text[k] == "(":
            depth += 1
        elif text[k] == ")":
            depth -= 1
            if depth == 0:
                return k
    return -1


def _param_names(params):
    names = []
    depth = 0
    cur = ""
    parts = []
    for ch in params:
        if ch in "(<[{":
            depth += 1
        elif ch in ")>]}":
            depth -= 1
        if ch == "," and depth == 0:
            parts.append(cur)
            cur = ""
        else:
            cur += ch
    if cur.strip():
        parts.append(cur)
    for p in parts:
        p = p.split("=")[0].strip()
        m = re.search(r"([A-Za-z_]\w*)\s*$", p)
        if not m:
            return None
        names.append(m.group(1))
    return names


def instrument_text(text, cls):
    out = []
    pos = 0
    found = []
    for m in HEAD.finditer(text):
        op = m.group(1)
        lp = m.end() - 1
        rp = _match_paren(text, lp)
        if rp < 0:
            continue
        k = rp + 1
        while k < len(text) and text[k] in " \t\r\n":
            k += 1
        if k >= len(text) or text[k] != "{":
            continue                      # a declaration
        names = _param_names(text[lp + 1:rp])
        if names is None:
            continue
        out.append(text[pos:k + 1])
        out.append(' BGV_SCOPE_%s("%s", ::bgv::args(%s));' % (cls, op, ", ".join(names)))
        pos = k + 1
        found.append((op, names))
    out.append(text[pos:])
    return "".join(out), found


def instrument_tree(include_src, include_dst):
    """copy include_src to include_dst, instrumenting the class headers; returns {file: [(op, params)]}"""
    if os.path.exists(include_dst):
        shutil.rmtree(include_dst)
    shutil.copytree(include_src, include_dst)
    report = {}
    for name, cls in FILES.items():
        p = os.path.join(include_dst, "BaseGraph", name)
        if not os.path.exists(p):
            continue
        with open(p) as f:
            text = f.read()
        new, found = instrument_text(text, cls)
        with open(p, "w") as f:
            f.write(new)
        report[name] = found
    return report


if __name__ == "__main__":
    import sys
    rep = instrument_tree(sys.argv[1], sys.argv[2])
    for f, found in rep.items():
        print(f, len(found))
        for op, names in found:
            print("   ", op, names)
