"""Properties decided on spec/Machine.tla (one graph object): C01-C05, C07 (graph
operations part), C16.  Each property is a list of scenarios per tier; every scenario is
model checked by TLC, its transition graph is executed on the real classes (walk) and
recorded random executions of the real classes are validated by TLC (trace)."""
import concurrent.futures
import json
import os
import shutil
import time

import machine
import vf
from machine import Scenario, mutators, observers

S = Scenario


# real vertex indices of the embedded histories: around every power-of-two boundary up to 2^16
# (two graph sizes: exactly 2^16 + 1 vertices - where size x size first exceeds 32 bits - and 70 001)
EMBED = ((0, 1, 2, 31, 32, 63, 64, 255, 256, 4095, 4096, 32768, 65534, 65535, 65536),
         (0, 1, 2, 31, 33, 63, 65, 255, 257, 4096, 65535, 65536, 65537, 70000))


def T(histories, steps, nmax, families=None, dense=(), embed=EMBED, embed_histories=2):
    """Recorded executions: `histories` random histories of `steps` calls on up to `nmax` vertices
    (every 4th on up to twice as many) + one dense history per size in `dense` + (embed) histories
    whose vertices are the given indices of a graph with embed[-1]+1 vertices."""
    return {"histories": histories, "steps": steps, "nmax": nmax, "families": families, "dense": tuple(dense),
            "embed": tuple(tuple(e) for e in embed) if embed else None, "embed_histories": embed_histories}


def c01(tier):
    if tier == "quick":
        return [S("dn3", "dn", 3, reps=3, trace=T(12, 150, 7, dense=(20, 40))),
                S("dl2", "dl", 2, reps=2, trace=T(4, 120, 6, dense=(20, 36)))]
    return [S("dn3", "dn", 3, reps=4, trace=T(150, 250, 8, dense=(24, 48, 70))),
            S("dn4", "dn", 4, walk=False, workers=16),
            S("dl2", "dl", 2, reps=4, trace=T(40, 250, 8, dense=(24, 70))),
            S("dl3", "dl", 3, labels=(0, 1), walk=False, workers=16)]


def c02(tier):
    if tier == "quick":
        return [S("un4", "un", 4, reps=3, trace=T(12, 150, 7, dense=(20, 40))),
                S("ul2", "ul", 2, reps=2, trace=T(4, 120, 6, dense=(20, 36))),
                S("ul3", "ul", 3, labels=(0, 1), walk=False)]
    return [S("un4", "un", 4, reps=4, trace=T(150, 250, 8, dense=(24, 48, 70))),
            S("un5", "un", 5, walk=False, workers=16),
            S("ul3w", "ul", 3, labels=(0, 1), reps=2, trace=T(40, 250, 8, dense=(24, 70))),
            S("ul3", "ul", 3, walk=False, workers=16)]


def c03(tier):
    if tier == "quick":
        return [S("dl2", "dl", 2, reps=2, trace=T(5, 140, 6, dense=(20, 36))),
                S("ul2", "ul", 2, reps=2, trace=T(5, 140, 6, dense=(20, 36))),
                S("ul3", "ul", 3, labels=(0, 1), walk=False)]
    return [S("dl2", "dl", 2, reps=4, trace=T(60, 250, 8, dense=(24, 70))),
            S("dl3", "dl", 3, labels=(0, 1), walk=False, workers=16),
            S("ul3w", "ul", 3, labels=(0, 1), reps=2, trace=T(60, 250, 8, dense=(24, 70))),
            S("ul3", "ul", 3, walk=False, workers=16)]


def c04(tier):
    # (the reciprocal insertions are not among the calls C04 speaks of; they are exercised by C07/C17)
    dm_ops = mutators("dm", reciprocal=False)
    if tier == "quick":
        return [S("dm2", "dm", 2, ops=dm_ops, reps=3, trace=T(12, 150, 6, dense=(20, 40))),
                S("um2", "um", 2, reps=3, trace=T(12, 150, 6, dense=(20, 40))),
                S("um3", "um", 3, mults=(0, 1, 2), maxmult=2, walk=False)]
    return [S("dm2", "dm", 2, ops=dm_ops, mults=(0, 1, 2, 3), maxmult=3, reps=4, trace=T(150, 250, 8, dense=(24, 48))),
            S("dm3", "dm", 3, ops=dm_ops, mults=(0, 1, 2), maxmult=2, walk=False, workers=16),
            S("um3w", "um", 3, mults=(0, 1, 2), maxmult=2, reps=3, trace=T(150, 250, 8, dense=(24, 48))),
            S("um3", "um", 3, mults=(0, 1, 2, 3), maxmult=3, walk=False, workers=16)]


def c05(tier):
    if tier == "quick":
        return [S("dw2", "dw", 2, reps=3, trace=T(12, 150, 6, dense=(20, 40))),
                S("uw2", "uw", 2, reps=3, trace=T(12, 150, 6, dense=(20, 40))),
                # weights one ulp apart (1, 4) and a huge one (5) in the inexact-weight family
                S("dw2e", "dw", 2, weights="WeightSet5", reps=1), S("uw2e", "uw", 2, weights="WeightSet5", reps=1),
                S("uw3", "uw", 3, walk=False)]
    return [S("dw2", "dw", 2, weights="WeightSet4", reps=4, trace=T(150, 250, 8, dense=(24, 48))),
            S("dw3", "dw", 3, weights="WeightSet2", walk=False, workers=16),
            S("uw3w", "uw", 3, reps=3, trace=T(150, 250, 8, dense=(24, 48))),
            S("uw3", "uw", 3, weights="WeightSet4", walk=False, workers=16)]


def _force_ops(group):
    directed, kind = machine.GROUPS[group]
    ops = ["resize", "removeDuplicateEdges", "removeEdge", "addEdge"]
    if kind == "nolabel":
        ops.append("addEdgeD")
        if directed:
            ops.append("addReciprocalEdge")
    if kind == "multi":
        ops += ["addMultiedge"] + (["addReciprocalEdge", "addReciprocalMultiedge"] if directed else [])
    return ops


def _copies3(s):
    s.trace_copies = 3       # recorded histories force up to three copies of a pair (the exhaustive part: two)
    return s


def c16(tier):
    F = (False, True)
    if tier == "quick":
        tr = T(10, 120, 5, dense=(36,))
        tr70 = T(10, 120, 5, dense=(36, 70))      # beyond 64 vertices for the two classes the others build on
        return [S("dn2f", "dn", 2, ops=_force_ops("dn"), forces=F, maxcopies=2, reps=3, trace=tr70),
                S("un2f", "un", 2, ops=_force_ops("un"), forces=F, maxcopies=2, reps=3, trace=tr70),
                S("dl1f", "dl", 1, ops=_force_ops("dl"), labels=(0, 1), forces=F, maxcopies=2, reps=2, trace=T(3, 100, 5)),
                S("dl2f", "dl", 2, ops=_force_ops("dl"), labels=(0, 1), forces=F, maxcopies=2, walk=False),
                S("ul2f", "ul", 2, ops=_force_ops("ul"), labels=(0, 1), forces=F, maxcopies=2, reps=2, trace=T(3, 100, 5)),
                S("dm2f", "dm", 2, ops=_force_ops("dm"), mults=(1, 2), maxmult=3, forces=F, maxcopies=2, reps=3, trace=tr),
                S("um2f", "um", 2, ops=_force_ops("um"), mults=(1, 2), maxmult=3, forces=F, maxcopies=2, reps=3, trace=tr),
                _copies3(S("dw2f", "dw", 2, ops=_force_ops("dw"), forces=F, maxcopies=2, reps=3, trace=tr)),
                _copies3(S("uw2f", "uw", 2, ops=_force_ops("uw"), forces=F, maxcopies=2, reps=3, trace=tr))]
    tr = T(100, 200, 7, dense=(24, 40, 70))
    out = []
    for g in ("dn", "un", "dl", "ul", "dm", "um", "dw", "uw"):
        kw = dict(ops=_force_ops(g), forces=F, maxcopies=3, reps=4, trace=tr)
        if g in ("dl", "ul"):
            kw.update(labels=(0, 1), trace=T(20, 200, 7), reps=2)
        if g in ("dm", "um"):
            kw.update(mults=(1, 2), maxmult=3)
        out.append(S(g + "2f", g, 2, **kw))
        kw3 = dict(kw)
        kw3.update(walk=False, trace=None, maxcopies=2, workers=16)
        if g in ("dl", "ul"):
            kw3.update(labels=(0, 1))
        if g in ("dm", "um"):
            kw3.update(mults=(1, 2), maxmult=3)
        if g in ("un", "ul", "um", "uw") or g == "dn":
            out.append(S(g + "3f", g, 3, **kw3))
    return out


def c07(tier):
    """Rejected calls: every entry point x argument position x bad value x flags."""
    F = (False, True)
    out = []
    for g in ("dn", "un", "dl", "ul", "dm", "um", "dw", "uw"):
        kw = dict(ops=mutators(g) + observers(g), forces=F, maxcopies=2, bad=True, reps=2,
                  invariants=["TypeOK"], properties=["RejectNothing"],
                  trace=T(6 if tier == "quick" else 60, 150, 5))
        if g in ("dl", "ul"):
            kw.update(labels=(0, 1), trace=T(2 if tier == "quick" else 15, 150, 5))
        if g in ("dm", "um"):
            kw.update(mults=(0, 1, 2), maxmult=3)
        if g in ("dw", "uw"):
            kw.update(weights="WeightSet2")
        n = 2 if g in ("dn", "un") or (tier == "thorough" and g not in ("dl", "ul")) else 1
        out.append(S("%s%dbad" % (g, n), g, n, **kw))
        if tier == "thorough" and g in ("dl", "ul"):
            # two vertices with a single non-default label (the label alphabet does not matter for rejections)
            kw2 = dict(kw)
            kw2.update(labels=(1,), reps=1, trace=None, maxcopies=1, forces=F)
            out.append(S("%s2bad" % g, g, 2, **kw2))
    return out


def c06(tier):
    P = machine.PairScenario
    if tier == "quick":
        return [P("dn2", "dn", 2), P("un3", "un", 3), P("dl2", "dl", 2, labels=(0, 1), reps=1),
                # 4 vertices, all edges of each object leaving one vertex
                P("dn4s", "dn", 4, ops=["addEdge", "removeEdge"], initn=4, constraints=["SingleSource"], reps=1),
                P("ul2", "ul", 2, labels=(0, 1), reps=1), P("dm2", "dm", 2, mults=(0, 1, 2), maxmult=2, reps=1),
                P("um2", "um", 2, mults=(0, 1, 2), maxmult=2), P("dw2", "dw", 2), P("uw2", "uw", 2)]
    return [P("dn3", "dn", 3, walk=False, workers=16), P("dn2", "dn", 2, reps=4), P("un3", "un", 3, reps=4),
            P("dn5s", "dn", 5, ops=["addEdge", "removeEdge"], initn=5, constraints=["SingleSource"], reps=1, workers=8),
            P("un5s", "un", 5, ops=["addEdge", "removeEdge"], initn=5, constraints=["SingleSource"], walk=False, workers=8),
            P("dl2", "dl", 2, labels=(0, 1), reps=2), P("dl2x", "dl", 2, labels=(0, 1, 2), walk=False, workers=16),
            P("ul3", "ul", 3, labels=(0, 1), walk=False, workers=16), P("ul2", "ul", 2, labels=(0, 1, 2), reps=2),
            P("dm2", "dm", 2, mults=(0, 1, 2), maxmult=2, reps=2), P("dm2x", "dm", 2, mults=(0, 1, 2, 3), maxmult=3, walk=False, workers=16),
            P("um2", "um", 2, mults=(0, 1, 2, 3), maxmult=3, reps=3),
            P("um3", "um", 3, mults=(0, 1), maxmult=1, walk=False, workers=16),
            P("dw2", "dw", 2, reps=2), P("dw2x", "dw", 2, weights="WeightSet3", walk=False, workers=16),
            P("uw2", "uw", 2, weights="WeightSet3", reps=3),
            P("uw3", "uw", 3, weights="WeightSetH", walk=False, workers=16)]


# What each property speaks of.  A check compares only these observers (and only the
# internal-consistency topics that belong to its property), so that a defect of another
# property's subject matter is not reported under the wrong property.
SCOPE = {
    "C01": dict(obs=["n", "en", "nbr", "has", "outdeg", "indeg", "mat"], state=["n", "adj", "en"], topics=["degree", "range"]),
    "C02": dict(obs=["n", "en", "nbr", "has", "deg1", "deg2", "mat", "mat1"], state=["n", "adj", "en"], topics=["degree", "range", "nbr"]),
    "C03": dict(obs=["n", "has", "lab", "labd", "hasl"], state=["n"], topics=["label"], mask=True),
    "C04": dict(obs=["n", "en", "tot", "nbr", "has", "mult", "outdeg", "indeg", "deg1", "deg2", "mat", "mat1"],
                state=["n", "adj", "en", "tot", "lab"], topics=["degree", "range", "mult"]),
    "C05": dict(obs=["n", "en", "tot", "nbr", "has", "lab", "labd", "wmat", "outdeg", "indeg", "deg1", "deg2", "mat", "mat1"],
                state=None, topics=["degree", "range", "weight", "total", "label"]),
    "C16": dict(obs=["n", "en", "tot", "nbr", "has", "edges", "lab", "labd", "mult", "wmat", "outdeg", "indeg", "deg1", "deg2",
                     "mat", "mat1"], state=None, topics=["degree", "range", "iter", "mult", "weight", "total", "label"]),
    "C08": dict(obs=["n"], state=["n"], topics=["iter", "range"]),
    "C07": dict(obs=None, state=None, topics=[], check_valid=False),
}


def apply_scope(pid, scenarios):
    sc = SCOPE.get(pid)
    if not sc:
        return scenarios
    for s in scenarios:
        if not hasattr(s, "scope_plan"):
            continue
        s.obs_fields, s.state_fields, s.topics = sc.get("obs"), sc.get("state"), sc.get("topics")
        s.check_valid = sc.get("check_valid", True)
        s.mask_by_has = sc.get("mask", False)
    return scenarios


TABLE = {"C06": c06, "C01": c01, "C02": c02, "C03": c03, "C04": c04, "C05": c05, "C16": c16, "C07": c07}


def run_scenarios(pid, scenarios, seed, gh_exe, extra_builds=(), scope=None):
    """-> (results, violations).  Scenarios run concurrently (TLC + walk are mostly
    single-pipeline; 16 cores)."""
    results, violations = [], []
    apply_scope(scope or pid, scenarios)

    def one(scn):
        out = {"scenario": scn.name}
        r = machine.run_mc_walk(pid, scn, gh_exe)
        out["mc"] = r
        out["traces"] = []
        if scn.trace:
            recs = machine.record_traces(pid, scn, gh_exe, seed, scn.trace["histories"], scn.trace["steps"],
                                         scn.trace["nmax"], scn.trace["families"], dense=scn.trace.get("dense", ()))
            for rec in recs:
                rec["obs_fields"] = None
            if scn.trace.get("embed") and scn.check_valid:
                fams = [0] if scn.kind in ("weighted", "nolabel") else [0, 1] if scn.kind == "multi" else [0, 4]
                for k, emb in enumerate(scn.trace["embed"]):
                    erecs = machine.record_traces(pid, scn, gh_exe, seed + k, scn.trace["embed_histories"], scn.trace["steps"],
                                                  len(emb), fams, tag="embed%d" % k, embed=emb)
                    for rec in erecs:
                        rec["obs_fields"] = machine.embedded_obs(scn)
                        rec["family_index"] = 100 * (k + 1) + rec["family_index"]      # (distinct replay names)
                    recs += erecs
            for rec in recs:
                if rec["rc"] != 0:
                    out["traces"].append({"record_failed": rec})
                    continue
                of = rec["obs_fields"]
                v = machine.validate_trace(pid, scn, rec["path"], obs_fields=of)
                if not v["accepted"]:
                    # a rejection is reported only if a second, diagnosing run repeats it
                    again = machine.validate_trace(pid, scn, rec["path"], tag="again", obs_fields=of)
                    if again["accepted"]:
                        vf.log("[flake] trace accepted on re-run: " + rec["path"])
                        v = again
                    else:
                        v["diagnosis"] = machine.validate_trace(pid, scn, rec["path"], check_obs=False, tag="diag", obs_fields=of)
                v["family_index"] = rec["family_index"]
                v["histories"] = scn.trace["histories"]
                out["traces"].append(v)
        return out

    with concurrent.futures.ThreadPoolExecutor(max_workers=4) as ex:
        futs = [ex.submit(one, s) for s in scenarios]
        for f in futs:
            results.append(f.result())
    for res, scn in zip(results, scenarios):
        mc = res["mc"]
        tl = mc["tlc"]
        if tl["violation"]:
            path = os.path.join(vf.REPLAYS, "%s-%s-tlc.json" % (pid, scn.name))
            os.makedirs(vf.REPLAYS, exist_ok=True)
            shutil.copy(mc["tlc_log"], path + ".log")
            with open(path, "w") as f:
                json.dump({"kind": "tlc", "scenario": scn.name, "violation": tl["violation"], "log": path + ".log",
                           "note": "the specification (which transcribes the code) violates the property; "
                                   "the counterexample history is in the log"}, f, indent=1)
            violations.append({"replay": path, "what": "TLC: %s in %s" % (tl["violation"], scn.name)})
        elif not tl["ok"] and "crash" not in mc:      # (TLC is killed when the harness dies)
            raise vf.Infra("TLC did not finish on %s: %s (log %s)" % (scn.name, tl["error"], mc["tlc_log"]))
        if scn.walk:
            w = mc.get("walk")
            if w is None:
                crash = mc.get("crash") or {}
                path = os.path.join(vf.REPLAYS, "%s-%s-crash.json" % (pid, scn.name))
                os.makedirs(vf.REPLAYS, exist_ok=True)
                note = crash.get("note") or {}
                note.update({"kind": "walk", "crashed": True, "rc": crash.get("rc"), "stderr": crash.get("stderr")})
                with open(path, "w") as f:
                    json.dump(note, f, indent=1)
                violations.append({"replay": path, "what": "harness died (rc %s) executing %s" %
                                   (crash.get("rc"), json.dumps(note.get("call")))})
            else:
                # transitions leaving a state that was only reached through a failed
                # transition cannot be executed; without any failure this is a tooling fault
                if w["orphan_transitions"] and not w["failures"] and not w.get("histories_left_after_edge_divergence"):
                    raise vf.Infra("walk of %s left %d transitions unexecuted" % (scn.name, w["orphan_transitions"]))
                for p, note in zip(w["replays"], w["fail_notes"]):
                    violations.append({"replay": p, "what": note[:300]})
                if w["failures"] and not w["replays"]:
                    violations.append({"replay": "-", "what": "%d failures" % w["failures"]})
        for v in res["traces"]:
            if "record_failed" in v:
                rec = v["record_failed"]
                path = os.path.join(vf.REPLAYS, "%s-%s-record-crash%d.json" % (pid, scn.name, rec["family_index"]))
                os.makedirs(vf.REPLAYS, exist_ok=True)
                note = rec.get("note") or {}
                note.update({"kind": "walk", "crashed": True, "rc": rec["rc"], "stderr": rec["stderr"]})
                with open(path, "w") as f:
                    json.dump(note, f, indent=1)
                violations.append({"replay": path, "what": "recorder died (rc %s)" % rec["rc"]})
            elif not v["accepted"]:
                if v["tlc"]["error"] and "Postcondition" not in (v["tlc"]["error"] or "") and not v["tlc"]["violation"] \
                        and v["matched"] == 0:
                    raise vf.Infra("trace validation failed to run: %s (%s)" % (v["tlc"]["error"], v["log"]))
                path = os.path.join(vf.REPLAYS, "%s-%s-trace%d.json" % (pid, scn.name, v["family_index"]))
                os.makedirs(vf.REPLAYS, exist_ok=True)
                keep = path + ".ndjson"
                shutil.copy(v["trace"], keep)
                diag = (v.get("diagnosis") or {}).get("mismatches") or []
                with open(path, "w") as f:
                    json.dump({"kind": "trace", "scenario": scn.name, "group": scn.group,
                               "family_index": v["family_index"], "trace": keep, "events": v["events"],
                               "matched_prefix": v["matched"], "tlc_violation": v["tlc"]["violation"],
                               "first_mismatches": diag}, f, indent=1)
                what = "recorded execution rejected at event %d of %d" % (v["matched"] + 1, v["events"])
                if v["tlc"]["violation"]:
                    what += " (%s)" % v["tlc"]["violation"]
                if diag:
                    what += ": call %s" % json.dumps(diag[0].get("call"))
                violations.append({"replay": path, "what": what})
    return results, violations


def coverage_of(results, scenarios):
    states = sum(r["mc"]["tlc"]["distinct"] for r in results)
    transitions = sum(r["mc"]["tlc"]["generated"] for r in results)
    walked = sum((r["mc"].get("walk") or {}).get("transitions", 0) for r in results)
    execs = sum((r["mc"].get("walk") or {}).get("executions", 0) for r in results)
    rejected = sum((r["mc"].get("walk") or {}).get("rejected_transitions", 0) for r in results)
    hist = sum(v.get("histories", 0) for r in results for v in r["traces"] if v.get("accepted"))
    events = sum(v.get("events", 0) for r in results for v in r["traces"] if v.get("accepted"))
    eq_true = sum((r["mc"].get("walk") or {}).get("eq_true", 0) for r in results)
    eq_false = sum((r["mc"].get("walk") or {}).get("eq_false", 0) for r in results)
    fams = sorted({f for r in results for f in (r["mc"].get("walk") or {}).get("families", [])})
    samples = []
    for r in results:
        for s in (r["mc"].get("walk") or {}).get("samples", [])[:1]:
            samples.append({"scenario": r["scenario"], "transition": s})
    ops = {}
    for r in results:
        for k, v in ((r["mc"].get("walk") or {}).get("ops") or {}).items():
            ops[k] = ops.get(k, 0) + v
    per = []
    for r, s in zip(results, scenarios):
        per.append({"scenario": s.name, "class_family": s.group, "MaxN": s.maxn, "forces": list(s.forces),
                    "bad_arguments": s.bad, "tlc_distinct_states": r["mc"]["tlc"]["distinct"],
                    "tlc_transitions": r["mc"]["tlc"]["generated"], "tlc_depth": r["mc"]["tlc"]["depth"],
                    "cut_by_time_limit": bool(r["mc"].get("cut_by_time_limit")),
                    "walk_transitions": (r["mc"].get("walk") or {}).get("transitions"),
                    "walk_executions": (r["mc"].get("walk") or {}).get("executions"),
                    "traces": [{"family_index": v.get("family_index"), "events": v.get("events"),
                                "accepted": v.get("accepted")} for v in r["traces"]],
                    "wall_s": r["mc"]["wall_s"]})
    return {
        "states": states, "transitions": transitions,
        "traces_validated_against_impl": hist,
        "trace_events_validated": events,
        "spec_transitions_executed_on_impl": walked,
        "impl_executions": execs,
        "rejected_call_transitions_executed": rejected,
        "classes_and_label_kinds": fams,
        "calls_exercised": ops,
        "pair_transitions_with_equal_graphs": eq_true,
        "pair_transitions_with_unequal_graphs": eq_false,
        "samples": samples or [{"note": "no walk in this run"}],
        "scenarios": per,
        "exhaustive": not any(r["mc"].get("cut_by_time_limit") for r in results),
    }
