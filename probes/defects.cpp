// Demonstrations of the genuine defects D1..D12 found on the pinned tree.
// Each line prints "Dk ok" when the property holds and "Dk DEFECT ..." otherwise.
// Build: g++ -std=c++14 -I$REPO/include probes/defects.cpp -o build/defects
#include "BaseGraph/directed_graph.hpp"
#include "BaseGraph/directed_multigraph.hpp"
#include "BaseGraph/directed_weighted_graph.hpp"
#include "BaseGraph/undirected_graph.hpp"
#include "BaseGraph/undirected_multigraph.hpp"
#include "BaseGraph/undirected_weighted_graph.hpp"
#include "BaseGraph/algorithms/paths.hpp"
#include "BaseGraph/fileio.hpp"
#include <cstdio>
#include <fstream>
#include <iostream>
#include <sys/resource.h>
#include <sys/wait.h>
#include <unistd.h>

using namespace BaseGraph;
static int bad = 0;
#define REPORT(id, cond, what)                                                 \
    do {                                                                       \
        if (cond)                                                              \
            std::printf("%s ok\n", id);                                        \
        else {                                                                 \
            std::printf("%s DEFECT %s\n", id, what);                           \
            ++bad;                                                             \
        }                                                                      \
    } while (0)

template <class F> static bool throwsInvalid(F f) {
    try {
        f();
    } catch (std::invalid_argument &) {
        return true;
    } catch (...) {
    }
    return false;
}
template <class F> static bool throwsRange(F f) {
    try {
        f();
    } catch (std::out_of_range &) {
        return true;
    } catch (...) {
    }
    return false;
}
// run f in a child with an address-space limit and an alarm; returns exit code,
// or -signal
template <class F> static int inChild(F f) {
    fflush(stdout);
    pid_t p = fork();
    if (p == 0) {
        struct rlimit rl = {1ul << 30, 1ul << 30};
        setrlimit(RLIMIT_AS, &rl);
        alarm(10);
        int r = 3;
        try {
            r = f();
        } catch (std::exception &) {
            r = 2;
        } catch (...) {
            r = 4;
        }
        _exit(r);
    }
    int st = 0;
    waitpid(p, &st, 0);
    if (WIFSIGNALED(st))
        return -WTERMSIG(st);
    return WEXITSTATUS(st);
}

int main() {
    { // D1 clearEdges leaves labels
        LabeledDirectedGraph<int> g(2), fresh(2);
        g.addEdge(0, 1, 7);
        g.clearEdges();
        REPORT("D1a", throwsInvalid([&] { g.getEdgeLabel(0, 1); }) && g == fresh,
               "label survives clearEdges / g != fresh");
        DirectedMultigraph m(2);
        m.addMultiedge(0, 1, 3);
        m.clearEdges();
        REPORT("D1b", m.getEdgeMultiplicity(0, 1) == 0,
               "multiplicity survives clearEdges");
        UndirectedMultigraph um(2);
        um.addMultiedge(0, 1, 3);
        um.clearEdges();
        REPORT("D1c", um.getEdgeMultiplicity(0, 1) == 0,
               "multiplicity survives clearEdges (undirected)");
    }
    { // D2 directed removeVertexFromEdgeList leaves out-edge labels
        LabeledDirectedGraph<int> g(3);
        g.addEdge(0, 1, 7);
        g.addEdge(2, 0, 8);
        g.removeVertexFromEdgeList(0);
        REPORT("D2a", throwsInvalid([&] { g.getEdgeLabel(0, 1); }),
               "out-edge label survives removeVertexFromEdgeList");
        DirectedMultigraph m(3);
        m.addMultiedge(0, 1, 3);
        m.removeVertexFromEdgeList(0);
        REPORT("D2b", m.getEdgeMultiplicity(0, 1) == 0, "multigraph");
        DirectedWeightedGraph w(3);
        w.addEdge(0, 1, 2.);
        w.removeVertexFromEdgeList(0);
        REPORT("D2c", throwsInvalid([&] { w.getEdgeWeight(0, 1); }), "weighted");
    }
    { // D3 undirected
        LabeledUndirectedGraph<int> g(3);
        g.addEdge(0, 1, 7);
        g.removeVertexFromEdgeList(0);
        REPORT("D3a", throwsInvalid([&] { g.getEdgeLabel(0, 1); }),
               "label survives undirected removeVertexFromEdgeList");
        UndirectedMultigraph m(3);
        m.addMultiedge(1, 0, 3);
        m.removeVertexFromEdgeList(1);
        REPORT("D3b", m.getEdgeMultiplicity(0, 1) == 0, "multigraph");
        UndirectedWeightedGraph w(3);
        w.addEdge(0, 1, 2.);
        w.removeVertexFromEdgeList(1);
        REPORT("D3c", throwsInvalid([&] { w.getEdgeWeight(0, 1); }), "weighted");
    }
    { // D4
        UndirectedMultigraph m(2);
        m.addMultiedge(0, 1, 3);
        m.setEdgeMultiplicity(0, 1, 0);
        REPORT("D4", m.getEdgeMultiplicity(0, 1) == 0 && !m.hasEdge(0, 1) &&
                         m.getTotalEdgeNumber() == 0,
               "setEdgeMultiplicity(.,.,0) removes one copy only");
    }
    { // D5
        UndirectedWeightedGraph w(2);
        w.addEdge(0, 1, 2.);
        w.setEdgeWeight(1, 0, 5.);
        REPORT("D5", w.getEdgeWeight(0, 1) == 5. && w.getTotalWeight() == 5.,
               "setEdgeWeight(1,0,.) misses canonical key");
    }
    { // D6
        DirectedGraph d(0);
        UndirectedGraph u(0);
        bool ok = true;
        try {
            for (auto e : d.edges())
                (void)e;
            for (auto e : u.edges())
                (void)e;
            d.getInDegrees();
            d.getAdjacencyMatrix();
            d.getReversedGraph();
            u.getDirectedGraph();
            ok = d.edges().begin() == d.edges().end() &&
                 u.edges().begin() == u.edges().end();
        } catch (std::exception &e) {
            ok = false;
        }
        REPORT("D6", ok, "edges() throws on the 0-vertex graph");
    }
    { // D7
        LabeledUndirectedGraph<int> u(2);
        u.addEdge(0, 1, 7);
        auto d = u.getDirectedGraph();
        REPORT("D7", d.getEdgeLabel(0, 1, false) == 7 && d.getEdgeLabel(1, 0, false) == 7,
               "getDirectedGraph drops labels");
    }
    { // D8 force=true skips the range check
        int r = inChild([] {
            DirectedGraph g(2);
            bool a = throwsRange([&] { g.addEdge(0, 5, true); });
            bool b = throwsRange([&] { g.addEdge(5, 0, true); });
            UndirectedGraph u(2);
            bool c = throwsRange([&] { u.addEdge(0, 5, true); });
            DirectedWeightedGraph w(2);
            bool d = throwsRange([&] { w.addEdge(0, 5, 1., true); });
            UndirectedWeightedGraph uw(2);
            bool e = throwsRange([&] { uw.addEdge(5, 0, 1., true); });
            return (a && b && c && d && e) ? 0 : 1;
        });
        REPORT("D8", r == 0, "addEdge(force=true) with bad index not rejected");
    }
    { // D9 searches
        int r = inChild([] {
            DirectedGraph g(3);
            g.addEdge(0, 1);
            bool a = throwsRange([&] { algorithms::findVertexPredecessors(g, 7); });
            bool b = throwsRange([&] { algorithms::findAllVertexPredecessors(g, 7); });
            bool c = throwsRange([&] { algorithms::findGeodesics(g, 0, 7); });
            bool d = throwsRange([&] { algorithms::findAllGeodesics(g, 0, 7); });
            bool e = throwsRange([&] { algorithms::findGeodesics(g, 7, 7); });
            DirectedWeightedGraph w(3);
            bool f = throwsRange([&] { algorithms::findGeodesicsDijkstra(w, 7); });
            return (a && b && c && d && e && f) ? 0 : 1;
        });
        REPORT("D9", r == 0, "searches do not range-check");
    }
    { // D10 truncated binary file
        int r = inChild([] {
            {
                std::ofstream f("/tmp/_d10.bin", std::ios::binary);
                unsigned a[4] = {0, 1, 1, 2};
                f.write((const char *)a, 14); // second record cut at 6 of 8 bytes
            }
            auto g = io::loadBinaryEdgeList<LabeledDirectedGraph, NoLabel>("/tmp/_d10.bin");
            return (g.getEdgeNumber() == 1 && g.getSize() == 2) ? 0 : 1;
        });
        std::remove("/tmp/_d10.bin");
        REPORT("D10", r == 0 || r == 2, "truncated record invents an edge");
    }
    { // D11 "-1 0"
        int r = inChild([] {
            {
                std::ofstream f("/tmp/_d11.txt");
                f << "-1 0\n";
            }
            auto g = io::loadTextEdgeList<LabeledDirectedGraph, NoLabel>("/tmp/_d11.txt");
            return 0;
        });
        std::remove("/tmp/_d11.txt");
        REPORT("D11", r == 0 || r == 2, "negative index crashes the text loader");
    }
    std::printf("%d defect(s)\n", bad);
    return bad ? 1 : 0;
}
