// D16: findAllVertexPredecessors scans a vertex once per shortest path reaching it
// (exponential on layered graphs); property C19 bounds the scans by V+E.
#include "BaseGraph/directed_graph.hpp"
#include "BaseGraph/algorithms/paths.hpp"
#include <cstdio>
using namespace BaseGraph;
static size_t scans = 0;
template <class L> struct Counting : LabeledDirectedGraph<L> {
    using LabeledDirectedGraph<L>::LabeledDirectedGraph;
    const Successors &getOutNeighbours(VertexIndex v) const {
        ++scans;
        return LabeledDirectedGraph<L>::getOutNeighbours(v);
    }
};
int main() {
    const int layers = 16, width = 2;
    Counting<NoLabel> g(1 + layers * width + 1);
    size_t E = 0;
    auto id = [&](int l, int k) { return 1 + l * width + k; };
    for (int k = 0; k < width; ++k) { g.addEdge(0, id(0, k)); ++E; }
    for (int l = 0; l + 1 < layers; ++l)
        for (int a = 0; a < width; ++a)
            for (int b = 0; b < width; ++b) { g.addEdge(id(l, a), id(l + 1, b)); ++E; }
    for (int k = 0; k < width; ++k) { g.addEdge(id(layers - 1, k), 1 + layers * width); ++E; }
    auto r = algorithms::findAllVertexPredecessors(g, 0);
    size_t bound = g.getSize() + E;
    std::printf("V+E=%zu scans=%zu dist[last]=%zu preds[last]=%zu\n", bound, scans, r.first.back(), r.second.back().size());
    return scans <= bound ? 0 : 1;
}
