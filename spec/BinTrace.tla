------------------------------ MODULE BinTrace ------------------------------
(***************************************************************************)
(* code -> spec for LARGE binary edge lists (C14): records written by the  *)
(* harness for random graphs with hundreds of vertices / thousands of      *)
(* edges (vertex indices and labels beyond one byte, more records than any *)
(* plausible internal buffer).  Each record carries the edges in the order *)
(* the real edges() enumerated them, the bytes the real writer produced    *)
(* and the graph the real loader returned (as an edge list).  Validated    *)
(* relationally with the operators of BinFormat.tla, record by record, so  *)
(* that no recursion over the whole file is needed.                        *)
(***************************************************************************)
EXTENDS BinFormat, IOUtils

Recs == ndJsonDeserialize(IOEnv.RECORDS)
VARIABLE idx
TInit == idx \in 1 .. Len(Recs) /\ n = 0 /\ ins = <<>> /\ out = <<>>
TNext == UNCHANGED <<idx, n, ins, out>>

Trip(e) == <<e[1], e[2], e[3]>>
SetOf(s) == {Trip(s[k]) : k \in 1 .. Len(s)}
MaxV(s) == LET RECURSIVE M(_, _)
               M(k, acc) == IF k > Len(s) THEN acc
                            ELSE M(k + 1, IF s[k][1] > acc /\ s[k][1] >= s[k][2] THEN s[k][1]
                                          ELSE IF s[k][2] > acc THEN s[k][2] ELSE acc)
           IN  M(1, -1)

BigBinOK ==
    LET r == Recs[idx] IN
    \* the file is nothing but one little-endian record per edge, in enumeration order
    /\ Len(r.bytes) = Len(r.edges) * RecSize
    /\ \A k \in 1 .. Len(r.edges) :
          SubSeq(r.bytes, (k - 1) * RecSize + 1, k * RecSize) = Record(Trip(r.edges[k]))
    \* what was loaded: 1 + largest used index vertices, exactly the same edges and labels
    /\ r.loaded_n = MaxV(r.edges) + 1
    /\ r.loaded_en = Len(r.edges)
    /\ Len(r.loaded_edges) = Len(r.edges)
    /\ SetOf(r.loaded_edges) = SetOf(r.edges)
    /\ r.equal_after_resize
=============================================================================
