---------------------------- MODULE DerivedTrace ----------------------------
(***************************************************************************)
(* code -> spec for the constructions of C09 / C10 on LARGE random graphs  *)
(* (25-70 vertices: beyond every size the exhaustive enumeration of        *)
(* Derived.tla reaches).  The harness records (input, result of the real   *)
(* function); each record must satisfy the DECLARATIVE meaning of the      *)
(* construction - the same statements that Derived.tla checks of its       *)
(* transcriptions on all small inputs.  Graphs arrive as GraphOps!Enc      *)
(* (1-based sequences).                                                    *)
(***************************************************************************)
EXTENDS Derived, IOUtils

Recs == ndJsonDeserialize(IOEnv.RECORDS)
VARIABLE idx
TInit == idx \in 1 .. Len(Recs) /\ x = [k |-> "trace"]
TNext == UNCHANGED <<idx, x>>

R(n) == 1 .. n
CountCells(m, n, P(_, _)) == Cardinality({p \in R(n) \X R(n) : P(p[1], p[2]) /\ m[p[1]][p[2]] > 0})

ReverseRec(r) ==
    /\ r.out.n = r.g.n /\ r.out.en = r.g.en
    /\ \A i, j \in R(r.g.n) : r.out.adj[j][i] = r.g.adj[i][j] /\ r.out.lab[j][i] = r.g.lab[i][j]
    /\ r.twice_equal
ToDirectedRec(r) ==
    LET u == r.g
        d == r.out IN
    /\ d.n = u.n
    /\ \A i, j \in R(u.n) : /\ d.adj[i][j] = u.adj[i][j]
                            /\ d.lab[i][j] = (IF u.adj[i][j] > 0 THEN (IF i <= j THEN u.lab[i][j] ELSE u.lab[j][i]) ELSE NoneL)
    /\ d.en = CountCells(u.adj, u.n, LAMBDA i, j : TRUE)
    /\ r.back_equal                                        \* undirected -> directed -> undirected = identity
ToUndirectedRec(r) ==
    LET d == r.g
        u == r.out
        joined(i, j) == d.adj[i][j] > 0 \/ d.adj[j][i] > 0 IN
    /\ u.n = d.n
    /\ \A i, j \in R(d.n) : u.adj[i][j] = (IF joined(i, j) THEN 1 ELSE 0)
    /\ u.en = Cardinality({p \in R(d.n) \X R(d.n) : p[1] <= p[2] /\ joined(p[1], p[2])})
    /\ \A i, j \in R(d.n) :
          IF i <= j /\ joined(i, j) /\ r.labeled
          THEN u.lab[i][j] \in ({d.lab[i][j], d.lab[j][i]} \ {NoneL})
          ELSE u.lab[i][j] = NoneL
SubgraphRec(r) ==
    LET S == {r.S[k] + 1 : k \in 1 .. Len(r.S)}
        keep(i, j) == i \in S /\ j \in S /\ r.g.adj[i][j] > 0 IN
    /\ r.out.n = r.g.n
    /\ \A i, j \in R(r.g.n) : /\ r.out.adj[i][j] = (IF keep(i, j) THEN 1 ELSE 0)
                              /\ r.out.lab[i][j] = (IF keep(i, j) THEN r.g.lab[i][j] ELSE NoneL)
    /\ r.out.en = Cardinality({p \in R(r.g.n) \X R(r.g.n) : (r.dir \/ p[1] <= p[2]) /\ keep(p[1], p[2])})
\* edge-list constructors (Kind of this run = the class family of the record)
Tr3(s) == [k \in 1 .. Len(s) |-> <<s[k][1], s[k][2], s[k][3]>>]
\* C09 is relative here: 1 + largest index vertices, and EQUAL TO THE GRAPH OBTAINED BY ADDING THE
\* EDGES ONE AT A TIME to a real object of the class (r.one); that the specification's transcription of
\* the constructor has the same property is checked on the model (Derived!EdgeListOK)
EdgeListRec(r) ==
    LET s == Tr3(r.seq) IN
    /\ r.out.n = MaxIdx(s) + 1
    /\ r.out = r.one
    /\ r.equal_one
    /\ IF r.dir THEN FromEdgeListD(s) = AddAllD(D!Empty(MaxIdx(s) + 1), s)
                ELSE FromEdgeListU(s) = AddAllU(U!Empty(MaxIdx(s) + 1), s)

BigDerivedOK ==
    LET r == Recs[idx] IN
    CASE r.k = "conv_reverse"      -> ReverseRec(r)
      [] r.k = "conv_todirected"   -> ToDirectedRec(r)
      [] r.k = "conv_toundirected" -> ToUndirectedRec(r)
      [] r.k = "conv_subgraph"     -> SubgraphRec(r)
      [] r.k = "conv_edgelist"     -> EdgeListRec(r)
=============================================================================
