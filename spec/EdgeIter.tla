------------------------------ MODULE EdgeIter ------------------------------
(***************************************************************************)
(* The edge cursor behind edges() (C08): Edges::begin(), operator++ and    *)
(* end() of the directed and undirected base classes, as implemented, over *)
(* adjacency lists that are SEQUENCES (here order matters: the cursor is a *)
(* (vertex, position) pair).  Every access to a vertex's list is guarded:  *)
(* touching the list of a vertex >= n is the error state "oor" - that is   *)
(* std::out_of_range in getOutNeighbours.                                  *)
(*                                                                         *)
(* Every graph SHAPE within the bounds is an initial state: every size     *)
(* from 0, every edge set, every neighbour-list order reachable by         *)
(* insertion order (directed: every order of every list; undirected:       *)
(* every insertion sequence of distinct pairs).  TLC checks that the       *)
(* traversal never goes out of range, terminates within n + entries + 1    *)
(* steps, yields exactly the expected sequence (every edge once, one       *)
(* orientation per undirected edge, a self-loop once) and that             *)
(* begin() = end() exactly when there is no edge.                          *)
(* With EmitJson the shape and the yielded sequence are printed and the    *)
(* harness compares the real traversal with them.                          *)
(***************************************************************************)
EXTENDS Integers, Sequences, FiniteSets, TLC, Json

CONSTANTS Directed, MaxN,
          MaxIns,      \* undirected: at most this many pairs inserted
          Pinned,      \* {"D6"}: begin()/end() before the zero-vertex repair
          EmitJson

VARIABLES n, lists,      \* the shape: lists[v] = sequence of neighbours
          ins,           \* the insertion sequence that produced it (for the harness)
          pc,            \* "begin" | "iter" | "done" | "oor"
          cv, cp,        \* cursor: vertex and 1-based position in lists[cv]
          yielded, steps
vars == <<n, lists, ins, pc, cv, cp, yielded, steps>>

VS(k) == 0 .. (k - 1)
Perms(S) == {s \in [1 .. Cardinality(S) -> S] : \A i, j \in 1 .. Cardinality(S) : i # j => s[i] # s[j]}

RECURSIVE BuildU(_, _)
\* lists produced by inserting the undirected pairs of s in order (undirected_graph.hpp
\* addEdge: push vertex2 on vertex1's list unless it is a loop, push vertex1 on vertex2's)
BuildU(l, s) ==
    IF s = <<>> THEN l
    ELSE LET a == Head(s)[1]
             b == Head(s)[2]
             l1 == IF a # b THEN [l EXCEPT ![a] = Append(@, b)] ELSE l
         IN  BuildU([l1 EXCEPT ![b] = Append(@, a)], Tail(s))

InitShape ==
    /\ n \in 0 .. MaxN
    /\ IF Directed
       THEN /\ lists \in [VS(n) -> UNION {Perms(S) : S \in SUBSET VS(n)}]
            /\ ins = <<>>
       ELSE \E P \in SUBSET {p \in VS(n) \X VS(n) : p[1] <= p[2]} :
              /\ Cardinality(P) <= MaxIns
              /\ \E s \in Perms(P) :
                   /\ ins = s
                   /\ lists = BuildU([v \in VS(n) |-> <<>>], s)

Init == /\ InitShape
        /\ pc = "begin" /\ cv = 0 /\ cp = 1 /\ yielded = <<>> /\ steps = 0

EndVertex == IF n = 0 THEN 0 ELSE n - 1
InRange(v) == v \in VS(n)
AtListEnd(v, p) == p > Len(lists[v])

\* the advance loop shared by begin() and operator++:
\*   while (neighbour == list(vertex).end() && vertex != endVertex) neighbour = list(++vertex).begin();
\* returns the cursor, or "oor" when a list of a vertex >= n is touched
RECURSIVE Advance(_, _)
Advance(v, p) ==
    IF ~InRange(v) THEN [oor |-> TRUE, v |-> v, p |-> p]
    ELSE IF AtListEnd(v, p) /\ v # EndVertex THEN Advance(v + 1, 1)
    ELSE [oor |-> FALSE, v |-> v, p |-> p]

\* end(): (endVertex, list(endVertex).end()); with zero vertices a value-initialised position
EndCursor == [v |-> EndVertex, p |-> IF n = 0 THEN 1 ELSE Len(lists[EndVertex]) + 1]
IsEnd(v, p) == v = EndCursor.v /\ p = EndCursor.p

Begin ==
    /\ pc = "begin"
    /\ IF n = 0 /\ "D6" \notin Pinned
       THEN /\ pc' = "done" /\ UNCHANGED <<cv, cp>>              \* begin() returns end()
       ELSE LET a == Advance(0, 1) IN                            \* starts from getOutNeighbours(0)
            IF a.oor THEN pc' = "oor" /\ UNCHANGED <<cv, cp>>
            ELSE /\ cv' = a.v /\ cp' = a.p
                 /\ pc' = IF IsEnd(a.v, a.p) THEN "done" ELSE "iter"
    /\ steps' = steps + 1
    /\ UNCHANGED <<n, lists, ins, yielded>>

\* one ++ of the undirected cursor: repeat the directed ++ while the half-edge reached
\* has vertex > neighbour and the end is not reached
RECURSIVE IncrU(_, _)
IncrU(v, p) ==
    LET a == Advance(v, p + 1) IN
    IF a.oor THEN a
    ELSE IF ~(AtListEnd(a.v, a.p) /\ a.v = EndVertex) /\ a.v > lists[a.v][a.p] THEN IncrU(a.v, a.p)
    ELSE a

Iter ==
    /\ pc = "iter"
    \* operator*: {vertex, *neighbour}
    /\ yielded' = Append(yielded, <<cv, lists[cv][cp]>>)
    /\ LET a == IF Directed THEN Advance(cv, cp + 1) ELSE IncrU(cv, cp) IN
       IF a.oor THEN pc' = "oor" /\ UNCHANGED <<cv, cp>>
       ELSE /\ cv' = a.v /\ cp' = a.p
            /\ pc' = IF IsEnd(a.v, a.p) THEN "done" ELSE "iter"
    /\ steps' = steps + 1
    /\ UNCHANGED <<n, lists, ins>>

Next == Begin \/ Iter

-----------------------------------------------------------------------------
RECURSIVE Flatten(_)
\* what the traversal must yield: vertices in order, each list in order; for the
\* undirected classes only the entries with vertex <= neighbour
Flatten(v) ==
    IF v >= n THEN <<>>
    ELSE LET keep(j) == Directed \/ v <= j
             RECURSIVE F(_)
             F(s) == IF s = <<>> THEN <<>>
                     ELSE (IF keep(Head(s)) THEN <<<<v, Head(s)>>>> ELSE <<>>) \o F(Tail(s))
         IN  F(lists[v]) \o Flatten(v + 1)
Expected == Flatten(0)
Entries == LET RECURSIVE S(_)
               S(v) == IF v >= n THEN 0 ELSE Len(lists[v]) + S(v + 1)
           IN  S(0)

NeverOutOfRange == pc # "oor"
Terminates == steps <= n + Entries + 1
\* the cursor always designates an existing list element while iterating
CursorValid == pc = "iter" => (InRange(cv) /\ cp \in 1 .. Len(lists[cv]))
YieldsExactly == pc = "done" => yielded = Expected
PrefixAlways == pc \in {"iter", "done"} => yielded = SubSeq(Expected, 1, Len(yielded))
\* begin() == end() exactly when there is no edge
BeginIsEndIffNoEdge == (steps = 1 /\ pc \in {"iter", "done"}) => ((pc = "done") <=> (Expected = <<>>))

\* operator<< of the (un)labelled base classes, beyond the listed properties: the header with
\* the size and one line per vertex listing its neighbours in list order
RECURSIVE JoinNb(_)
JoinNb(s) == IF s = <<>> THEN "" ELSE ToString(Head(s)) \o ", " \o JoinNb(Tail(s))
RECURSIVE VertexLines(_)
VertexLines(v) == IF v >= n THEN "" ELSE ToString(v) \o ": " \o JoinNb(lists[v]) \o "\n" \o VertexLines(v + 1)
StreamText == (IF Directed THEN "Directed graph of size: " ELSE "Undirected graph of size: ") \o ToString(n)
              \o "\nNeighbours of:\n" \o VertexLines(0)

Emit == (EmitJson /\ pc' \in {"done", "oor"}) =>
           PrintT(ToJson([k |-> "iter", dir |-> Directed, n |-> n,
                          lists |-> [v \in 1 .. n |-> lists[v - 1]], ins |-> ins,
                          yielded |-> yielded', oor |-> pc' = "oor", text |-> StreamText]))
=============================================================================
