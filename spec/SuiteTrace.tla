----------------------------- MODULE SuiteTrace -----------------------------
(***************************************************************************)
(* code -> spec for executions NOBODY IN /verif WROTE: every mutator call  *)
(* made by the repository's own test programs (and by any other program    *)
(* compiled against the instrumented copy of the headers, see              *)
(* lib/instrument.py and harness/bgv_trace.hpp).                           *)
(*                                                                         *)
(* An event is  [c, out, pre, post, cmptot]:  the call as a GraphOps call  *)
(* record, whether it returned or threw, and the object's REPRESENTATION   *)
(* (GraphOps!Enc: size, adjacency bags, the edgeLabels map with its        *)
(* orphans, the cached counters) immediately before and immediately after  *)
(* the outermost call.  Because both states are logged, no object identity *)
(* or history has to be reconstructed: each event is judged on its own,    *)
(*                                                                         *)
(*      Step(pre, c) = <<out, post>>                                       *)
(*                                                                         *)
(* which is the transition relation of Machine.tla restricted to the       *)
(* states the tests actually visit - including states the exhaustive       *)
(* configs exclude (forced duplicates together with labels, orphans, ...). *)
(* Labels are renamed per event by an injective map fixing the default     *)
(* label (the specification only compares labels with each other and with  *)
(* EdgeLabel()); weights are scaled per event to integers when they are    *)
(* dyadic, otherwise the running total is not compared (cmptot = FALSE).   *)
(* Each event is an initial state; EventOK is the invariant.               *)
(***************************************************************************)
EXTENDS GraphOps, Json, IOUtils

Evs == ndJsonDeserialize(IOEnv.EVENTS)
VARIABLE idx
TInit == idx \in 1 .. Len(Evs)
TNext == UNCHANGED idx

Dec(e) == [n   |-> e.n,
           adj |-> [i \in VS(e.n) |-> [j \in VS(e.n) |-> e.adj[i + 1][j + 1]]],
           lab |-> [i \in VS(e.n) |-> [j \in VS(e.n) |-> e.lab[i + 1][j + 1]]],
           en  |-> e.en,
           tot |-> e.tot]

Expected(ev) == Step(Dec(ev.pre), ev.c)

Matches(ev) ==
    LET r == Expected(ev)
        e == Enc(r.g) IN
    /\ (r.out = "ok") <=> (ev.out = "ok")
    /\ IF ev.cmptot THEN e = ev.post ELSE [e EXCEPT !.tot = 0] = ev.post

EventOK == Matches(Evs[idx])
\* C07 judges only the calls that the specification or the code rejected: the same verdict, and the
\* representation after the call identical to the one before it
RejectedOK == (Expected(Evs[idx]).out # "ok" \/ Evs[idx].out # "ok") =>
                 /\ Matches(Evs[idx])
                 /\ Evs[idx].post = Evs[idx].pre

\* diagnosis (bin/check --replay): print what the specification expects of event idx
Explain == PrintT(ToJson([idx |-> idx, expected |-> [out |-> Expected(Evs[idx]).out,
                                                     post |-> Enc(Expected(Evs[idx]).g)]]))
=============================================================================
