------------------------------ MODULE Readers ------------------------------
(***************************************************************************)
(* Concurrent read-only use of one graph object (C18).                     *)
(*                                                                         *)
(* Threads repeatedly run const entry points on a shared object.  An       *)
(* operation is Begin(t, op), then one Access step per memory cell in the  *)
(* operation's access list - reads, and for an operation that keeps a      *)
(* cache inside the object also writes - and End(t, op) with the result    *)
(* computed from the values it read.  Accesses of different threads        *)
(* interleave arbitrarily.                                                 *)
(*                                                                         *)
(* RaceFree: no two operations in flight have accessed / are accessing the *)
(* same cell with at least one write and no ordering between them (here:   *)
(* both in flight - there is no synchronisation at all between readers).   *)
(* Deterministic: every End returns what a single-threaded run returns.    *)
(* Both hold in every interleaving iff every operation's WRITE set on      *)
(* shared cells is empty; the config "cached" adds one operation with a    *)
(* non-empty write set and TLC finds both violations.                      *)
(*                                                                         *)
(* Binding: (a) the harness shows, in every state it visits, that each     *)
(* const entry point leaves the object's bytes and containers unchanged     *)
(* (empty write sets); (b) real threads run the entry points under         *)
(* ThreadSanitizer and log Begin/End events; ReadersTrace.tla validates    *)
(* the merged log as a behaviour of this module (per-thread alternation    *)
(* of Begin/End, every result equal to the sequential one).                *)
(***************************************************************************)
EXTENDS Integers, Sequences, FiniteSets, TLC

CONSTANTS Threads,      \* e.g. {1, 2}
          Ops,          \* operation names
          Cells,        \* shared memory cells of the object
          ReadSeq,      \* [Ops -> Seq(Cells)]    cells read, in order
          WriteCells,   \* [Ops -> SUBSET Cells]  cells (re)written by the operation (caches)
          MaxOps        \* operations per thread

VARIABLES mem,          \* [Cells -> value]
          cur,          \* [Threads -> "idle" or [op, pos, acc, touched]]
          done,         \* [Threads -> number of finished operations]
          results,      \* set of <<op, result>> returned so far
          raced         \* TRUE once two in-flight operations conflicted on a cell

vars == <<mem, cur, done, results, raced>>

Idle == [op |-> "idle"]
InitMem == [c \in Cells |-> 1]                 \* the graph's (abstract) contents
\* the result of an operation: here simply the sum of what it read (any function of the
\* values read would do: it is deterministic iff the values read are)
Seq2Sum(s) == LET RECURSIVE S(_)
                  S(k) == IF k > Len(s) THEN 0 ELSE s[k] + S(k + 1)
              IN  S(1)
SequentialResult(op) == Len(ReadSeq[op])       \* every cell holds 1 in a single-threaded run

Init == /\ mem = InitMem
        /\ cur = [t \in Threads |-> Idle]
        /\ done = [t \in Threads |-> 0]
        /\ results = {}
        /\ raced = FALSE

Begin(t) == /\ cur[t] = Idle /\ done[t] < MaxOps
            /\ \E op \in Ops : cur' = [cur EXCEPT ![t] = [op |-> op, pos |-> 1, acc |-> <<>>, rd |-> {}, wr |-> {}]]
            /\ UNCHANGED <<mem, done, results, raced>>

\* conflict of an access by t with what another in-flight operation has touched so far
Conflict(t, c, isWrite) ==
    \E u \in Threads \ {t} : cur[u] # Idle /\ (c \in cur[u].wr \/ (isWrite /\ c \in cur[u].rd))

\* one memory access: the next read of the list; a caching operation first invalidates
\* (writes 0) and then fills (writes 1) its cache cells before reading them
Access(t) ==
    /\ cur[t] # Idle /\ cur[t].pos <= Len(ReadSeq[cur[t].op])
    /\ LET o == cur[t]
           c == ReadSeq[o.op][o.pos] IN
       IF c \in WriteCells[o.op] /\ c \notin o.wr
       THEN \* first touch of a cache cell: a write (to a scratch value; filled by the next step)
            /\ mem' = [mem EXCEPT ![c] = 0]
            /\ cur' = [cur EXCEPT ![t].wr = @ \cup {c}]
            /\ raced' = (raced \/ Conflict(t, c, TRUE))
       ELSE IF c \in WriteCells[o.op] /\ mem[c] = 0
       THEN /\ mem' = [mem EXCEPT ![c] = 1]
            /\ UNCHANGED cur
            /\ raced' = (raced \/ Conflict(t, c, TRUE))
       ELSE /\ cur' = [cur EXCEPT ![t].pos = @ + 1, ![t].acc = Append(@, mem[c]), ![t].rd = @ \cup {c}]
            /\ raced' = (raced \/ Conflict(t, c, FALSE))
            /\ UNCHANGED mem
    /\ UNCHANGED <<done, results>>

End(t) == /\ cur[t] # Idle /\ cur[t].pos > Len(ReadSeq[cur[t].op])
          /\ results' = results \cup {<<cur[t].op, Seq2Sum(cur[t].acc)>>}
          /\ cur' = [cur EXCEPT ![t] = Idle]
          /\ done' = [done EXCEPT ![t] = @ + 1]
          /\ UNCHANGED <<mem, raced>>

Next == \E t \in Threads : Begin(t) \/ Access(t) \/ End(t)

RaceFree == ~raced
Deterministic == \A r \in results : r[2] = SequentialResult(r[1])
\* the object is never modified by its readers
Unmodified == (\A op \in Ops : WriteCells[op] = {}) => mem = InitMem
=============================================================================
