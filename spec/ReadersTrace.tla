---------------------------- MODULE ReadersTrace ----------------------------
(***************************************************************************)
(* code -> spec for C18: the merged Begin/End log of REAL reader threads    *)
(* (harness/conc_main.cpp, run under ThreadSanitizer) must be a behaviour  *)
(* of Readers.tla at the granularity that can be observed: per thread,     *)
(* Begin and End alternate; an End returns the operation's sequential      *)
(* result (recorded in the log's header event before the threads start);   *)
(* operations of different threads overlap freely.  The number of pairs of *)
(* overlapping operations is reported, as evidence that the schedule       *)
(* actually interleaved.                                                   *)
(***************************************************************************)
EXTENDS Integers, Sequences, FiniteSets, TLC, Json, IOUtils

Log == ndJsonDeserialize(IOEnv.TRACE)
\* Log[1] = [ev |-> "baseline", results |-> [op name |-> result hash]]
Baseline == Log[1].results

VARIABLES l,          \* next event
          inop,       \* thread -> operation in flight ("" = idle); threads are numbered 1..N
          overlaps    \* number of Begin events that found another operation in flight
tvars == <<l, inop, overlaps>>

NThreads == Log[1].threads
TInit == l = 2 /\ inop = [t \in 1 .. NThreads |-> ""] /\ overlaps = 0

TBegin == /\ Log[l].ev = "begin"
          /\ inop[Log[l].t] = ""
          /\ Log[l].op \in DOMAIN Baseline
          /\ inop' = [inop EXCEPT ![Log[l].t] = Log[l].op]
          /\ overlaps' = overlaps + (IF \E u \in 1 .. NThreads : u # Log[l].t /\ inop[u] # "" THEN 1 ELSE 0)
          /\ l' = l + 1
TEnd == /\ Log[l].ev = "end"
        /\ inop[Log[l].t] = Log[l].op
        /\ Log[l].res = Baseline[Log[l].op]          \* Deterministic
        /\ inop' = [inop EXCEPT ![Log[l].t] = ""]
        /\ overlaps' = overlaps
        /\ l' = l + 1
TNext == l <= Len(Log) /\ (TBegin \/ TEnd)

TraceAccepted == TLCGet("stats").diameter = Len(Log)
ReportOverlaps == (l = Len(Log) + 1) => PrintT(<<"OVERLAPS", overlaps>>)
=============================================================================
