----------------------------- MODULE ReadersMC -----------------------------
(* Model-checking instances of Readers.tla: the const entry points of the graph classes   *)
(* with the cells of the representation they read (size, cached counters, adjacency lists, *)
(* label map) - none of them writes - and, for the negative config, one operation that     *)
(* memoises a result inside the object.                                                    *)
EXTENDS Readers

CellsAll == {"size", "en", "tot", "list0", "list1", "labels", "cache"}
OpsPure == {"getEdgeNumber", "hasEdge", "getEdgeLabel", "getInDegrees", "edges", "equals_copy", "search", "write"}
ReadPure == [op \in OpsPure \cup {"inDegreesCached", "usesCache"} |->
    CASE op = "getEdgeNumber" -> <<"en">>
      [] op = "hasEdge"       -> <<"size", "list0">>
      [] op = "getEdgeLabel"  -> <<"size", "labels">>
      [] op = "getInDegrees"  -> <<"size", "list0", "list1">>
      [] op = "edges"         -> <<"size", "list0", "list1", "labels">>
      [] op = "equals_copy"   -> <<"size", "en", "labels", "list0", "list1", "tot">>
      [] op = "search"        -> <<"size", "list0", "list1", "list0">>
      [] op = "write"         -> <<"size", "list0", "labels", "list1", "labels">>
      [] op = "inDegreesCached" -> <<"size", "cache", "list0", "cache">>
      [] op = "usesCache"     -> <<"size", "cache">>]      \* reads what the other operation memoises
WriteNone == [op \in OpsPure \cup {"inDegreesCached", "usesCache"} |-> {}]
OpsCached == {"getEdgeNumber", "inDegreesCached", "usesCache"}
WriteCached == [op \in OpsPure \cup {"inDegreesCached", "usesCache"} |-> IF op = "inDegreesCached" THEN {"cache"} ELSE {}]
=============================================================================
