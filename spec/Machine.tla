------------------------------ MODULE Machine ------------------------------
(***************************************************************************)
(* The state machine of ONE graph object of any of the eight classes       *)
(* (selected by the constants Directed and Kind of GraphOps), driven by    *)
(* every public mutator, together with a GHOST: the mathematical graph     *)
(* the call history denotes, updated by the one-line textbook meaning of   *)
(* each call and never looking at the representation.                      *)
(*                                                                         *)
(* The listed properties C01-C05, C07 (graph operations) and C16 are the   *)
(* invariants / action properties at the end, which tie the                *)
(* implementation-shaped value g (cached counters, label map, half-edges)  *)
(* and the observers computed from it to the ghost.  TLC decides them in   *)
(* every reachable state, i.e. after every finite history over the         *)
(* constants of the config.                                                *)
(***************************************************************************)
EXTENDS Ghost, Json

CONSTANTS MaxN,        \* vertices 0..MaxN-1 at most (resize never beyond)
          Ops,         \* names of the calls enabled in this config
          LabelArgs,   \* label arguments (labeled kinds)          e.g. {0,1,2}; 0 = EdgeLabel()
          MultArgs,    \* multiplicity arguments (multigraphs)      e.g. {0,1,2}
          MaxMult,     \* bound on stored multiplicities
          WeightArgs,  \* weight arguments (weighted graphs)        e.g. {-1,0,2}
          Forces,      \* values of the force flag: {FALSE} or BOOLEAN
          MaxCopies,   \* bound on parallel copies created with force=true
          OrphanForce, \* TRUE: setEdgeLabel(force=true) on absent edges is enabled
          BadOffsets,  \* out-of-range vertex arguments: subset of {0, 1, MAXU} (size+0, size+1, UINT_MAX)
          EmitJson     \* TRUE: print every transition as JSON (spec -> code replay)

VARIABLES g,      \* the object, as GraphOps models it
          gh,     \* ghost: [n, att, cp, same]
          last    \* the call that produced this state and its outcome (hidden by the VIEW)

vars == <<g, gh, last>>

\* value sets that a .cfg file cannot spell (no negative literals there)
WeightSet2 == {-1, 2}
WeightSet3 == {-1, 0, 2}
WeightSet4 == {-1, 0, 2, 3}
WeightSet5 == {-1, 1, 2, 4, 5}    \* 1 and 4 are one ulp apart, 5 is huge (inexact-weight family)
BadAll == {0, 1, MAXU}

-----------------------------------------------------------------------------
(* Calls enabled in a state                                                 *)

V == VS(g.n)
BadVals == {IF b = MAXU THEN MAXU ELSE g.n + b : b \in BadOffsets}
\* argument pairs: all valid ones, plus (with BadOffsets) those with a bad value in
\* either or both positions
Pairs == (V \X V) \cup ((V \cup BadVals) \X BadVals) \cup (BadVals \X (V \cup BadVals))
Verts == V \cup BadVals

LabeledKind == Kind \in {"nolabel", "labeled"}
LArgs == IF Kind = "nolabel" THEN {DefL} ELSE LabelArgs

RelocateHow == {"copyassign", "moveassign", "moveconstruct", "swap", "selfassign"}
AllCalls ==
    {[op |-> "resize", k |-> k] : k \in 0 .. MaxN}
    \cup {[op |-> "relocate", how |-> h] : h \in RelocateHow}
    \cup {[op |-> o] : o \in {"clearEdges", "removeDuplicateEdges", "removeSelfLoops"}}
    \cup {[op |-> "removeVertexFromEdgeList", v |-> v] : v \in Verts}
    \cup {[op |-> "removeEdge", i |-> p[1], j |-> p[2]] : p \in Pairs}
    \cup (IF LabeledKind
          THEN {[op |-> "addEdge", i |-> p[1], j |-> p[2], l |-> l, f |-> f] :
                    p \in Pairs, l \in LArgs, f \in Forces}
               \cup {[op |-> "addEdgeD", i |-> p[1], j |-> p[2], f |-> f] : p \in Pairs, f \in Forces}
               \cup (IF Directed
                     THEN {[op |-> "addReciprocalEdge", i |-> p[1], j |-> p[2], l |-> l, f |-> f] :
                               p \in Pairs, l \in LArgs, f \in Forces}
                     ELSE {})
               \cup (IF Kind = "labeled"
                     THEN {[op |-> "setEdgeLabel", i |-> p[1], j |-> p[2], l |-> l, f |-> f] :
                               p \in Pairs, l \in LArgs, f \in (IF OrphanForce \/ BadOffsets # {} THEN BOOLEAN ELSE {FALSE})}
                     ELSE {})
          ELSE {})
    \cup (IF Kind = "multi"
          THEN {[op |-> "addEdge", i |-> p[1], j |-> p[2], f |-> f] : p \in Pairs, f \in Forces}
               \cup {[op |-> "addMultiedge", i |-> p[1], j |-> p[2], k |-> k, f |-> f] :
                         p \in Pairs, k \in MultArgs, f \in Forces}
               \cup {[op |-> o, i |-> p[1], j |-> p[2], k |-> k] :
                         o \in {"removeMultiedge", "setEdgeMultiplicity"}, p \in Pairs, k \in MultArgs}
               \cup (IF Directed
                     THEN {[op |-> "addReciprocalEdge", i |-> p[1], j |-> p[2], f |-> f] :
                               p \in Pairs, f \in Forces}
                          \cup {[op |-> "addReciprocalMultiedge", i |-> p[1], j |-> p[2], k |-> k, f |-> f] :
                               p \in Pairs, k \in MultArgs, f \in Forces}
                     ELSE {})
          ELSE {})
    \cup (IF Kind = "weighted"
          THEN {[op |-> "addEdge", i |-> p[1], j |-> p[2], w |-> w, f |-> f] :
                    p \in Pairs, w \in WeightArgs, f \in Forces}
               \cup {[op |-> "setEdgeWeight", i |-> p[1], j |-> p[2], w |-> w] : p \in Pairs, w \in WeightArgs}
               \cup (IF Directed
                     THEN {[op |-> "addReciprocalEdge", i |-> p[1], j |-> p[2], f |-> f] :
                               p \in Pairs, f \in BOOLEAN}
                     ELSE {})
          ELSE {})
    \* observers, listed so that REJECTED reads are transitions too (C07)
    \cup {[op |-> o, i |-> p[1], j |-> p[2]] :
              o \in {"hasEdge", "getEdgeLabel", "getEdgeLabelNoThrow"}
                   \cup (IF Kind = "multi" THEN {"getEdgeMultiplicity"} ELSE {})
                   \cup (IF Kind = "weighted" THEN {"getEdgeWeight"} ELSE {}), p \in Pairs}
    \cup {[op |-> o, v |-> v] :
              o \in {"getOutNeighbours", "assertVertexInRange"}
                   \cup (IF Directed THEN {"getOutDegree", "getInDegree"} ELSE {"getDegree"}), v \in Verts}

\* the multigraph and weighted classes are specified with duplicates only for
\* "forced insertions followed by removeDuplicateEdges" (C16): while a duplicate
\* exists only further insertions, removeDuplicateEdges and pure reads are enabled
DupOK(c) ==
    LabeledKind \/ ~HasDuplicates(g) \/ (IsAdd(c) /\ (Kind = "weighted" \/ c.f))
        \/ c.op = "removeDuplicateEdges"
        \/ Step(g, c).out # "ok" \/ Step(g, c).g = g

\* Copies of one pair that carried DIFFERENT weights / multiplicities leave the running
\* totals off for good; this is outside C16 ("provided all copies ... carried the same")
\* and, for weights, unbounded.  Such states are generated (and executed on the real
\* classes, and checked) but not explored further.
AllSameG == \A i, j \in VS(gh.n) : gh.same[i][j]
ExploreOnlySame == Kind \in {"multi", "weighted"} => AllSameG

Bounded(x) ==
    /\ \A i, j \in VS(x.n) : x.adj[i][j] <= MaxCopies
    /\ Kind = "multi" => \A i, j \in VS(x.n) : x.lab[i][j] <= MaxMult

Init == /\ g = Empty(0)
        /\ gh = GEmpty(0)
        /\ last = [c |-> [op |-> "init"], out |-> "ok"]

\* setEdgeLabel(force=true) on a pair that is not an edge leaves an orphan label: documented,
\* but outside every listed property - enabled only with OrphanForce (the forced flag itself
\* is still exercised on existing edges and on out-of-range arguments)
OrphanOK(c) ==
    (c.op = "setEdgeLabel" /\ c.f /\ InRange(g, c.i) /\ InRange(g, c.j) /\ ~HasEdge(g, c.i, c.j)) => OrphanForce

Next == \E c \in AllCalls :
          /\ c.op \in Ops
          /\ DupOK(c)
          /\ OrphanOK(c)
          /\ LET r == Step(g, c) IN
               /\ Bounded(r.g)
               /\ g' = r.g
               /\ gh' = GStep(gh, c)
               /\ last' = [c |-> c, out |-> r.out]

Spec == Init /\ [][Next]_vars

View == <<g, gh>>

\* spec -> code: the labelled transition graph, one JSON line per generated transition
Emit == EmitJson =>
          PrintT(ToJson([from |-> Enc(g), c |-> last'.c, out |-> last'.out,
                         to |-> Enc(g'), obs |-> Obs(g')]))

-----------------------------------------------------------------------------
(* THE PROPERTIES                                                           *)

Attr(i, j) == GAtt(gh, i, j)                         \* NoneL: not an edge
Present(i, j) == GHas(gh, i, j)
Copies(i, j) == gh.cp[K1(i, j)][K2(i, j)]
AllSame == \A p \in Canon(gh.n) : gh.same[p[1]][p[2]]
MultOf(i, j) == IF Kind = "multi" /\ Present(i, j) THEN Attr(i, j) ELSE 1
CanonSum(f(_, _)) == SumMat([i \in V |-> [j \in V |-> IF <<i, j>> \in Canon(g.n) THEN f(i, j) ELSE 0]], g.n)

TypeOK == g.n = gh.n /\ g.n \in 0 .. MaxN

\* C01/C02: hasEdge is true exactly for the pairs of the denoted graph, whichever
\* orientation an undirected pair is named in
HasEdgeOK == \A i, j \in V : HasEdge(g, i, j) <=> Present(i, j)
\* neighbour lists hold each neighbour once per copy (C01, C02, C16); for the undirected
\* classes this is symmetry of the two half-edges and "a self-loop is listed once"
NeighboursOK == \A i, j \in V : g.adj[i][j] = Copies(i, j)
Symmetric == ~Directed => \A i, j \in V : g.adj[i][j] = g.adj[j][i]
\* getEdgeNumber counts each (unordered) pair once per copy
CountOK == g.en = CanonSum(Copies)
\* degrees and adjacency matrix are the matching counts
DegreesOK ==
    (Kind = "multi" => AllSame) =>
    IF Directed
    THEN \A v \in V : /\ OutDegree(g, v) = SumVec([j \in V |-> Copies(v, j) * MultOf(v, j)], g.n)
                      /\ InDegree(g, v)  = SumVec([i \in V |-> Copies(i, v) * MultOf(i, v)], g.n)
    ELSE \A v \in V : \A twice \in BOOLEAN :
            Degree(g, v, twice) =
              SumVec([j \in V |-> Copies(v, j) * MultOf(v, j) * (IF j = v /\ twice THEN 2 ELSE 1)], g.n)
MatrixOK ==
    (Kind = "multi" => AllSame) =>
    \A twice \in BOOLEAN : \A i, j \in V :
        AdjMatrix(g, twice)[i][j] =
            Copies(i, j) * MultOf(i, j) * (IF ~Directed /\ i = j /\ twice THEN 2 ELSE 1)
\* edges() yields each edge once per copy, one orientation per undirected edge (C08 on
\* the representation level; the cursor itself is EdgeIter.tla)
EdgesOK == \A i, j \in V : EdgeCount(g, i, j) = IF <<i, j>> \in Canon(g.n) THEN Copies(i, j) ELSE 0

\* C03: a label exists exactly as long as its edge and has the value last given; a pair
\* that is not an edge has NO entry however the edge disappeared
LabelsOK ==
    (Kind # "nolabel" /\ AllSame) =>
        /\ \A i, j \in V : StoredLabel(g, i, j) = Attr(i, j)
        /\ \A i, j \in V : (<<i, j>> \notin Canon(g.n)) => g.lab[i][j] = NoneL
HasEdgeLOK ==
    (Kind = "labeled" /\ AllSame) =>
        \A i, j \in V : \A l \in LabelArgs : HasEdgeL(g, i, j, l) <=> (Present(i, j) /\ Attr(i, j) = l)

\* C04: multiplicity = number of parallel edges; zero exactly when there is no edge;
\* total = sum of multiplicities
MultOK ==
    (Kind = "multi" /\ AllSame) =>
        \A i, j \in V : /\ Mult(g, i, j) = (IF Present(i, j) THEN Attr(i, j) ELSE 0)
                        /\ (Mult(g, i, j) = 0) <=> ~HasEdge(g, i, j)
TotalOK ==
    (Kind \in {"multi", "weighted"} /\ AllSame) =>
        g.tot = CanonSum(LAMBDA i, j : IF Present(i, j) THEN Copies(i, j) * Attr(i, j) ELSE 0)
\* C05: weight matrix holds each edge's weight (mirrored when undirected) and 0 elsewhere
WeightMatrixOK ==
    (Kind = "weighted" /\ AllSame) =>
        \A i, j \in V : WeightMatrix(g)[i][j] = IF Present(i, j) THEN Attr(i, j) ELSE 0

\* C16 (and, without force, the conjunction of everything above): a state without
\* duplicate list entries whose copies all carried one attribute IS the canonical
\* representation of the graph built by the same calls without force
CanonRep ==
    [n   |-> gh.n,
     adj |-> [i \in V |-> [j \in V |-> B2I(Present(i, j))]],
     lab |-> [i \in V |-> [j \in V |-> IF Kind # "nolabel" /\ <<i, j>> \in Canon(gh.n) THEN gh.att[i][j] ELSE NoneL]],
     en  |-> Cardinality({p \in Canon(gh.n) : gh.att[p[1]][p[2]] # NoneL}),
     tot |-> IF Kind \in {"multi", "weighted"}
             THEN CanonSum(LAMBDA i, j : IF Present(i, j) THEN Attr(i, j) ELSE 0) ELSE 0]
DedupEqualsUnforced == (AllSame /\ ~HasDuplicates(g)) => g = CanonRep
AfterDedup == last.c.op = "removeDuplicateEdges" =>
                 /\ ~HasDuplicates(g)
                 /\ g.en = Cardinality({p \in Canon(g.n) : HasEdge(g, p[1], p[2])})

\* ---- action properties (evaluated by TLC on every generated transition)
\* re-adding an existing edge or removing an absent one changes nothing (C01, C03, C05)
IdempotentStep ==
    LET c == last'.c IN
    /\ (c.op \in {"addEdge", "addEdgeD"} /\ Kind # "multi" /\ last'.out = "ok" /\ ~c.f
            /\ GHas(gh, c.i, c.j)) => g' = g
    /\ (c.op = "removeEdge" /\ last'.out = "ok" /\ ~GHas(gh, c.i, c.j)) => g' = g
\* resize keeps every edge and adds only isolated vertices (C01)
ResizeKeepsStep ==
    (last'.c.op = "resize" /\ last'.out = "ok") =>
        /\ g'.en = g.en /\ g'.tot = g.tot
        /\ \A i, j \in VS(g'.n) :
              /\ g'.adj[i][j] = (IF i < g.n /\ j < g.n THEN g.adj[i][j] ELSE 0)
              /\ g'.lab[i][j] = (IF i < g.n /\ j < g.n THEN g.lab[i][j] ELSE NoneL)
\* C07: a rejected call changes nothing; C04: the multiplicity arithmetic
RejectStep == last'.out # "ok" => (g' = g /\ gh' = gh)
MultArithStep ==
    LET c == last'.c
        m(h, i, j) == IF GHas(h, i, j) THEN GAtt(h, i, j) ELSE 0 IN
    (Kind = "multi" /\ last'.out = "ok" /\ ~HasDuplicates(g) /\ ~HasDuplicates(g')) =>
      /\ (c.op = "addMultiedge" /\ ~c.f) => Mult(g', c.i, c.j) = Mult(g, c.i, c.j) + c.k
      /\ c.op = "removeMultiedge" =>
            Mult(g', c.i, c.j) = Mult(g, c.i, c.j) - (IF c.k < Mult(g, c.i, c.j) THEN c.k ELSE Mult(g, c.i, c.j))
      /\ c.op = "setEdgeMultiplicity" =>
            (Mult(g', c.i, c.j) = c.k /\ (c.k = 0 => ~HasEdge(g', c.i, c.j)))

Idempotent    == [][IdempotentStep]_vars
ResizeKeeps   == [][ResizeKeepsStep]_vars
RejectNothing == [][RejectStep]_vars
MultArith     == [][MultArithStep]_vars
=============================================================================
