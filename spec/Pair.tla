-------------------------------- MODULE Pair --------------------------------
(***************************************************************************)
(* Two graph objects of the same class, each with its own call history,    *)
(* plus copy construction / assignment between them: the product state     *)
(* space is the set of all PAIRS of histories.  Property C06: operator==   *)
(* (CodeEq, transcribed from directed_graph.hpp:447-469 - size, cached     *)
(* edge count, wholesale equality of the label maps, mutual inclusion of   *)
(* the adjacency lists) is true exactly when the two histories denote the  *)
(* same graph (AdtEq on the ghosts), whatever either object held in the    *)
(* past; it is reflexive and symmetric; a copy equals its source and is    *)
(* independent of it.                                                      *)
(***************************************************************************)
EXTENDS Ghost, Json

CONSTANTS MaxN, Ops, LabelArgs, MultArgs, MaxMult, WeightArgs, EmitJson,
          InitN        \* both objects start with this many vertices

VARIABLES gs,     \* <<g1, g2>>  the two objects
          hs,     \* <<h1, h2>>  their ghosts
          last

pvars == <<gs, hs, last>>

WeightSet2 == {-1, 2}
WeightSet3 == {-1, 0, 2}
WeightSetH == {-1, 5}              \* 5 is huge (1e20) in the inexact-weight family: totals become history dependent

\* ---- operator== as the code computes it
RawHas(x, i, j) == x.adj[i][j] > 0          \* Directed::hasEdge: j in adjacencyList[i]
CodeEq(x, y) ==
    /\ x.n = y.n
    /\ x.en = y.en
    /\ x.lab = y.lab                          \* edgeLabels == other.edgeLabels (keys and values)
    /\ \A i, j \in VS(x.n) : (RawHas(x, i, j) => RawHas(y, i, j)) /\ (RawHas(y, i, j) => RawHas(x, i, j))

\* ---- equality of the denoted graphs: same vertices, same edges, equal attributes
AdtEq(h1, h2) == h1.n = h2.n /\ h1.att = h2.att

V(k) == VS(gs[k].n)
LabeledKind == Kind \in {"nolabel", "labeled"}
LArgs == IF Kind = "nolabel" THEN {DefL} ELSE LabelArgs

CallsOf(k) ==
    LET P == V(k) \X V(k) IN
    {[op |-> "resize", k |-> n] : n \in gs[k].n .. MaxN}
    \cup {[op |-> o] : o \in {"clearEdges", "removeSelfLoops"}}
    \cup {[op |-> "removeVertexFromEdgeList", v |-> v] : v \in V(k)}
    \cup {[op |-> "removeEdge", i |-> p[1], j |-> p[2]] : p \in P}
    \cup (IF LabeledKind
          THEN {[op |-> "addEdge", i |-> p[1], j |-> p[2], l |-> l, f |-> FALSE] : p \in P, l \in LArgs}
               \cup (IF Kind = "labeled"
                     THEN {[op |-> "setEdgeLabel", i |-> p[1], j |-> p[2], l |-> l, f |-> FALSE] :
                               p \in P, l \in LArgs}
                     ELSE {})
          ELSE {})
    \cup (IF Kind = "multi"
          THEN {[op |-> "addMultiedge", i |-> p[1], j |-> p[2], k |-> m, f |-> FALSE] : p \in P, m \in MultArgs}
               \cup {[op |-> o, i |-> p[1], j |-> p[2], k |-> m] :
                         o \in {"removeMultiedge", "setEdgeMultiplicity"}, p \in P, m \in MultArgs}
          ELSE {})
    \cup (IF Kind = "weighted"
          THEN {[op |-> "addEdge", i |-> p[1], j |-> p[2], w |-> w, f |-> FALSE] : p \in P, w \in WeightArgs}
               \cup {[op |-> "setEdgeWeight", i |-> p[1], j |-> p[2], w |-> w] : p \in P, w \in WeightArgs}
          ELSE {})

Bounded(x) == Kind = "multi" => \A i, j \in VS(x.n) : x.lab[i][j] <= MaxMult

Init == /\ gs = <<Empty(InitN), Empty(InitN)>>
        /\ hs = <<GEmpty(InitN), GEmpty(InitN)>>
        /\ last = [kind |-> "init"]

\* object k executes call c
Call(k) == \E c \in CallsOf(k) :
             /\ c.op \in Ops
             /\ LET r == Step(gs[k], c) IN
                  /\ r.out = "ok"
                  /\ Bounded(r.g)
                  /\ gs' = [gs EXCEPT ![k] = r.g]
                  /\ hs' = [hs EXCEPT ![k] = GStep(hs[k], c)]
                  /\ last' = [kind |-> "call", obj |-> k, c |-> c]

\* object b receives the value of object a: "construct" copy constructor, "assign" operator=,
\* "moveconstruct" / "moveassign" from std::move(a) - after which a, left in a valid but unspecified
\* state, is assigned the value back, so that both hold it
Copy(a, b) == \E how \in {"construct", "assign", "moveconstruct", "moveassign"} :
                /\ gs' = [gs EXCEPT ![b] = gs[a]]
                /\ hs' = [hs EXCEPT ![b] = hs[a]]
                /\ last' = [kind |-> "copy", src |-> a, dst |-> b, how |-> how]
\* std::swap(a, b)
Swap == /\ gs' = <<gs[2], gs[1]>>
        /\ hs' = <<hs[2], hs[1]>>
        /\ last' = [kind |-> "swap"]
\* a = a
SelfAssign(k) == /\ UNCHANGED <<gs, hs>>
                 /\ last' = [kind |-> "selfassign", obj |-> k]

Next == \/ Call(1) \/ Call(2)
        \/ Copy(1, 2) \/ Copy(2, 1)
        \/ Swap \/ SelfAssign(1) \/ SelfAssign(2)

View == <<gs, hs>>

\* a sub-space in which larger graphs are affordable: in each object all edges leave one vertex
\* (operator== compares the neighbour lists vertex by vertex)
SingleSource ==
    \A k \in {1, 2} : Cardinality({i \in VS(gs[k].n) : \E j \in VS(gs[k].n) : gs[k].adj[i][j] > 0}) <= 1

Emit == EmitJson =>
          PrintT(ToJson([from |-> <<Enc(gs[1]), Enc(gs[2])>>, act |-> last',
                         to |-> <<Enc(gs'[1]), Enc(gs'[2])>>,
                         eq |-> [e12 |-> CodeEq(gs'[1], gs'[2]), e21 |-> CodeEq(gs'[2], gs'[1]),
                                 e11 |-> CodeEq(gs'[1], gs'[1]), e22 |-> CodeEq(gs'[2], gs'[2])]]))

-----------------------------------------------------------------------------
\* C06
EqCorrect   == CodeEq(gs[1], gs[2]) <=> AdtEq(hs[1], hs[2])
EqSymmetric == CodeEq(gs[1], gs[2]) <=> CodeEq(gs[2], gs[1])
EqReflexive == CodeEq(gs[1], gs[1]) /\ CodeEq(gs[2], gs[2])
\* a copy equals its source; stepping one object never changes the other
CopyStep ==
    /\ last'.kind = "copy" => (CodeEq(gs'[1], gs'[2]) /\ AdtEq(hs'[1], hs'[2]))
    /\ last'.kind = "call" => (gs'[3 - last'.obj] = gs[3 - last'.obj])
    /\ last'.kind = "swap" => (CodeEq(gs'[1], gs[2]) /\ CodeEq(gs'[2], gs[1]))
    /\ last'.kind = "selfassign" => (CodeEq(gs'[1], gs[1]) /\ CodeEq(gs'[2], gs[2]))
CopyIndependent == [][CopyStep]_pvars
=============================================================================
