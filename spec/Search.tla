------------------------------- MODULE Search -------------------------------
(***************************************************************************)
(* Path searches (C11, C12, C19, and the search part of C07).              *)
(*                                                                         *)
(* 1. The DECLARATIVE meaning of the results: hop distances, valid single  *)
(*    predecessors, the set of all predecessors, the set of all shortest   *)
(*    paths, minimum weighted distances (Bellman-Ford fixpoint) and a      *)
(*    consistent shortest-path tree.  Results that are not unique (which   *)
(*    parent, which of several shortest paths) are specified relationally. *)
(* 2. Enumeration of the input cases (every graph on <= MaxN vertices,     *)
(*    every weighting over a small alphabet, every bad argument) as        *)
(*    initial states, printed as JSON for the C++ harness, which runs the  *)
(*    real searches on them and writes one RECORD per (graph, source).     *)
(* 3. SearchTrace.tla validates those records (and records of random       *)
(*    larger graphs and of path-explosive families) against 1.             *)
(* The algorithms themselves are modelled in SearchAlgo.tla.               *)
(***************************************************************************)
EXTENDS Integers, Sequences, FiniteSets, TLC, Json

INF == -1            \* BASEGRAPH_VERTEX_MAX / +infinity in records
VS(n) == 0 .. (n - 1)

-----------------------------------------------------------------------------
(* Declarative layer.  A graph is given by n and an edge predicate E(u,v)   *)
(* ("v is in u's neighbour list"), weights by W(u,v).                       *)

\* hop distance from s to every vertex, INF when unreachable
Dist(n, E(_, _), s) ==
    LET RECURSIVE F(_, _, _)
        F(d, fr, k) ==
            IF fr = {} THEN d
            ELSE LET nx == {v \in VS(n) : d[v] = INF /\ \E u \in fr : E(u, v)} IN
                 F(TLCEval([v \in VS(n) |-> IF v \in nx THEN k + 1 ELSE d[v]]), nx, k + 1)
    IN  F(TLCEval([v \in VS(n) |-> IF v = s THEN 0 ELSE INF]), {s}, 0)

\* the in-neighbours of v that are one hop closer to the source
AllPreds(n, E(_, _), d, v) == {u \in VS(n) : E(u, v) /\ d[u] # INF /\ d[u] + 1 = d[v]}

\* the set of all shortest paths from s to t (sequences of vertices)
ShortestPaths(n, E(_, _), d, s, t) ==
    LET RECURSIVE SP(_)
        SP(v) == IF v = s THEN {<<s>>}
                 ELSE UNION {{Append(p, v) : p \in SP(u)} : u \in AllPreds(n, E, d, v)}
    IN  IF d[t] = INF THEN {} ELSE SP(t)

IsWalk(E(_, _), p) == \A k \in 1 .. (Len(p) - 1) : E(p[k], p[k + 1])

\* minimum total weight of a path from s (non-negative integer weights): Bellman-Ford
WDist(n, E(_, _), W(_, _), s) ==
    \* (TLCEval: TLC keeps [v \in S |-> e] unevaluated; without forcing it each round would
    \* re-evaluate all earlier rounds)
    LET Relax(d) == TLCEval([v \in VS(n) |->
                        LET cand == {d[u] + W(u, v) : u \in {u \in VS(n) : E(u, v) /\ d[u] # INF}}
                                    \cup (IF d[v] # INF THEN {d[v]} ELSE {})
                        IN  IF cand = {} THEN INF ELSE CHOOSE m \in cand : \A c \in cand : m <= c])
        RECURSIVE It(_, _)
        It(d, k) == IF k = 0 THEN d
                    ELSE LET d2 == Relax(d) IN IF d2 = d THEN d ELSE It(d2, k - 1)     \* fixpoint reached early
    IN  It(TLCEval([v \in VS(n) |-> IF v = s THEN 0 ELSE INF]), n)

-----------------------------------------------------------------------------
(* What a record of the real searches must satisfy                          *)
(* record fields (see harness/algo_labeled.hpp): g (GraphOps!Enc, 1-based   *)
(* sequences), dir, s, V, E, dist, pred, scans1, dist2, allpred, scans2,    *)
(* paths, allpaths, fromv, allfromv (the last four only when withpaths)     *)

RecE(r, u, v) == r.g.adj[u + 1][v + 1] > 0
\* weight of the edge u-v: the label stored under the canonical key
RecW(r, u, v) == IF r.dir \/ u <= v THEN r.g.lab[u + 1][v + 1] ELSE r.g.lab[v + 1][u + 1]
SeqSet(s) == {s[k] : k \in 1 .. Len(s)}
NoRepeat(s) == Cardinality(SeqSet(s)) = Len(s)

BfsDistOK(r) ==
    LET n == r.g.n
        d == Dist(n, LAMBDA u, v : RecE(r, u, v), r.s) IN
    /\ Len(r.dist) = n /\ Len(r.dist2) = n
    /\ \A v \in VS(n) : r.dist[v + 1] = d[v] /\ r.dist2[v + 1] = d[v]
\* the single predecessor is an in-neighbour one hop closer; none for the source and for
\* unreachable vertices
BfsPredOK(r) ==
    LET n == r.g.n
        d == Dist(n, LAMBDA u, v : RecE(r, u, v), r.s) IN
    \A v \in VS(n) :
        IF v = r.s \/ d[v] = INF THEN r.pred[v + 1] = INF
        ELSE r.pred[v + 1] \in AllPreds(n, LAMBDA u, w : RecE(r, u, w), d, v)
\* the all-predecessor list is exactly that set, without repeats
BfsAllPredOK(r) ==
    LET n == r.g.n
        d == Dist(n, LAMBDA u, v : RecE(r, u, v), r.s) IN
    \A v \in VS(n) :
        /\ NoRepeat(r.allpred[v + 1])
        /\ SeqSet(r.allpred[v + 1]) =
              (IF v = r.s \/ d[v] = INF THEN {} ELSE AllPreds(n, LAMBDA u, w : RecE(r, u, w), d, v))
\* findGeodesics / findGeodesicsFromVertex: [source] for the source, empty when
\* unreachable, otherwise a walk along edges with exactly dist hops
OnePathOK(r, d, p, t) ==
    IF t = r.s THEN p = <<r.s>>
    ELSE IF d[t] = INF THEN p = <<>>
    ELSE /\ Len(p) = d[t] + 1 /\ p[1] = r.s /\ p[Len(p)] = t
         /\ IsWalk(LAMBDA u, v : RecE(r, u, v), p)
\* findAllGeodesics / findAllGeodesicsFromVertex: exactly the set of all shortest paths,
\* none repeated
AllPathsOK(r, d, ps, t) ==
    /\ NoRepeat(ps)
    /\ SeqSet(ps) = ShortestPaths(r.g.n, LAMBDA u, v : RecE(r, u, v), d, r.s, t)
BfsPathsOK(r) ==
    r.withpaths =>
      LET n == r.g.n
          d == Dist(n, LAMBDA u, v : RecE(r, u, v), r.s) IN
      /\ Len(r.paths) = n /\ Len(r.allpaths) = n /\ Len(r.fromv) = n /\ Len(r.allfromv) = n
      /\ \A t \in VS(n) : /\ OnePathOK(r, d, r.paths[t + 1], t)
                          /\ OnePathOK(r, d, r.fromv[t + 1], t)
                          /\ AllPathsOK(r, d, r.allpaths[t + 1], t)
                          /\ AllPathsOK(r, d, r.allfromv[t + 1], t)
\* findPathToVertexFromPredecessors with an explicit source s2 on the table of a search from
\* r.s: the walk back from t along the single predecessors; a path if it meets s2, otherwise
\* "Path could not be found" (std::runtime_error, logged as <<-2>>)
ReconOK(r) ==
    LET RECURSIVE Back(_, _, _, _)
        Back(cur, s2, acc, fuel) ==
            IF cur = INF \/ fuel = 0 THEN <<-2>>
            ELSE IF r.pred[cur + 1] = s2 THEN <<s2>> \o <<cur>> \o acc
            ELSE Back(r.pred[cur + 1], s2, <<cur>> \o acc, fuel - 1)
    IN  \A k \in 1 .. Len(r.recon) :
          LET s2 == r.recon[k][1]
              t  == r.recon[k][2] IN
          s2 >= 0 => r.recon[k][3] = (IF s2 = t THEN <<s2>> ELSE Back(t, s2, <<>>, r.g.n + 1))

\* C19: neighbourhood scans bounded by the size of the graph
BfsScansOK(r) == r.scans1 <= r.V /\ r.scans2 <= r.V + r.E

BfsResultsOK(r) == BfsDistOK(r) /\ BfsPredOK(r) /\ BfsAllPredOK(r) /\ BfsPathsOK(r) /\ ReconOK(r)

\* C12: minimum weighted distances and a consistent tree
DijkstraDistOK(r) ==
    LET n == r.g.n
        wd == WDist(n, LAMBDA u, v : RecE(r, u, v), LAMBDA u, v : RecW(r, u, v), r.s) IN
    /\ Len(r.dist) = n
    /\ \A v \in VS(n) : r.dist[v + 1] = wd[v]
DijkstraTreeOK(r) ==
    \A v \in VS(r.g.n) :
        IF v = r.s THEN r.pred[v + 1] = r.s /\ r.dist[v + 1] = 0
        ELSE IF r.dist[v + 1] = INF THEN r.pred[v + 1] = INF
        ELSE LET p == r.pred[v + 1] IN
             /\ p \in VS(r.g.n) /\ RecE(r, p, v) /\ r.dist[p + 1] # INF
             /\ r.dist[v + 1] = r.dist[p + 1] + RecW(r, p, v)
DijkstraScansOK(r) == r.scans <= r.V + r.E + 1
\* (records of runs with inexactly representable weights carry no distances to compare)
DijkstraResultsOK(r) == r.inexact \/ (DijkstraDistOK(r) /\ DijkstraTreeOK(r))

\* C10: getSubgraphWithRemap - a one-to-one map from S onto 0..|S|-1 under which the
\* result has exactly the edges and labels of the induced subgraph (any bijection)
RemapOK(r) ==
    LET S == SeqSet(r.S)
        m == [k \in 1 .. Len(r.map) |-> r.map[k]]
        keys == {m[k][1] : k \in 1 .. Len(m)}
        img(v) == (CHOOSE k \in 1 .. Len(m) : m[k][1] = v)
        f(v) == m[img(v)][2]
        canon(u, v) == r.dir \/ u <= v IN
    /\ keys = S /\ Len(m) = Cardinality(S)
    /\ {f(v) : v \in S} = VS(Cardinality(S))
    /\ r.h.n = Cardinality(S)
    /\ \A a, b \in VS(r.h.n) :
          LET u == CHOOSE v \in S : f(v) = a
              w == CHOOSE v \in S : f(v) = b IN
          /\ r.h.adj[a + 1][b + 1] = r.g.adj[u + 1][w + 1]
          \* labels live under the canonical key of each graph
          /\ (IF r.dir THEN r.h.lab[a + 1][b + 1] = r.g.lab[u + 1][w + 1]
              ELSE (a <= b) => r.h.lab[a + 1][b + 1] =
                                  (IF u <= w THEN r.g.lab[u + 1][w + 1] ELSE r.g.lab[w + 1][u + 1]))
    /\ r.h.en = Cardinality({p \in VS(r.h.n) \X VS(r.h.n) : canon(p[1], p[2]) /\ r.h.adj[p[1] + 1][p[2] + 1] > 0})

\* C10, C11, C12: the results
ResultsOK(r) ==
    CASE r.k = "bfs"      -> BfsResultsOK(r)
      [] r.k = "dijkstra" -> DijkstraResultsOK(r)
      [] r.k = "remap"    -> RemapOK(r)
\* C19: the amount of work
ScansOK(r) ==
    CASE r.k = "bfs"      -> BfsScansOK(r)
      [] r.k = "dijkstra" -> DijkstraScansOK(r)
      [] OTHER            -> TRUE
=============================================================================
