------------------------------- MODULE Ghost -------------------------------
(***************************************************************************)
(* The GHOST: the mathematical graph that a call history denotes.          *)
(* GStep gives each call its one-line textbook meaning on an abstract      *)
(* graph value (a partial map from canonical vertex pairs to attributes -  *)
(* label, multiplicity or weight), without ever looking at the             *)
(* implementation-shaped representation of GraphOps.  The listed           *)
(* properties are stated as relations between the two (Machine.tla,        *)
(* Pair.tla).                                                              *)
(***************************************************************************)
EXTENDS GraphOps

-----------------------------------------------------------------------------
(* The ghost: an abstract graph                                             *)
(*   att[i][j]  (canonical key) attribute of the edge - label, multiplicity *)
(*              or weight - or NoneL when {i,j} / (i,j) is not an edge      *)
(*   cp[i][j]   number of parallel copies inserted with force (C16)         *)
(*   same[i][j] every forced copy carried the attribute the pair has        *)

TrueMat(n) == [i \in VS(n) |-> [j \in VS(n) |-> TRUE]]
GEmpty(n) == [n |-> n, att |-> NoneMat(n), cp |-> ZeroMat(n), same |-> TrueMat(n)]

Canon(n) == {p \in VS(n) \X VS(n) : Directed \/ p[1] <= p[2]}     \* canonical keys
GAtt(h, i, j)  == h.att[K1(i, j)][K2(i, j)]
GHas(h, i, j)  == GAtt(h, i, j) # NoneL
GPut(h, i, j, a) == [h EXCEPT !.att[K1(i, j)][K2(i, j)] = a]
GDel(h, i, j)  == GPut(h, i, j, NoneL)
GWhere(h, P(_, _)) ==          \* delete every edge whose canonical key satisfies P
    [h EXCEPT !.att = [i \in VS(h.n) |-> [j \in VS(h.n) |->
                          IF P(i, j) THEN NoneL ELSE h.att[i][j]]]]

\* "adding an edge that is already present changes nothing"
GAdd(h, i, j, a) == IF GHas(h, i, j) THEN h ELSE GPut(h, i, j, a)
\* multigraph: create or increment (k > 0); a FORCED insertion of a present pair is a
\* duplicate, not an increment (DESIGN.md, C16)
GAddM(h, i, j, k, f) ==
    IF k = 0 THEN h
    ELSE IF ~GHas(h, i, j) THEN GPut(h, i, j, k)
    ELSE IF f THEN h ELSE GPut(h, i, j, GAtt(h, i, j) + k)
GRemM(h, i, j, k) ==
    IF ~GHas(h, i, j) THEN h
    ELSE IF GAtt(h, i, j) > k THEN GPut(h, i, j, GAtt(h, i, j) - k) ELSE GDel(h, i, j)

GResize(h, k) ==
    [h EXCEPT !.n = k,
              !.att  = [i \in VS(k) |-> [j \in VS(k) |-> IF i < h.n /\ j < h.n THEN h.att[i][j] ELSE NoneL]],
              !.cp   = [i \in VS(k) |-> [j \in VS(k) |-> IF i < h.n /\ j < h.n THEN h.cp[i][j] ELSE 0]],
              !.same = [i \in VS(k) |-> [j \in VS(k) |-> IF i < h.n /\ j < h.n THEN h.same[i][j] ELSE TRUE]]]

\* meaning of a call on the abstract graph (attributes only; copies below)
GAttStep(h, c) ==
    LET ok2 == c.i \in VS(h.n) /\ c.j \in VS(h.n) IN
    CASE c.op = "resize" -> IF c.k >= h.n THEN GResize(h, c.k) ELSE h
      [] c.op = "clearEdges" -> GWhere(h, LAMBDA i, j : TRUE)
      [] c.op = "removeSelfLoops" -> GWhere(h, LAMBDA i, j : i = j)
      [] c.op = "removeVertexFromEdgeList" ->
            IF c.v \in VS(h.n) THEN GWhere(h, LAMBDA i, j : i = c.v \/ j = c.v) ELSE h
      [] c.op = "removeDuplicateEdges" -> h
      [] c.op = "addEdge" /\ Kind \in {"nolabel", "labeled"} ->
            IF ok2 THEN GAdd(h, c.i, c.j, c.l) ELSE h
      [] c.op = "addEdgeD" -> IF ok2 THEN GAdd(h, c.i, c.j, DefL) ELSE h
      [] c.op = "addReciprocalEdge" /\ Kind \in {"nolabel", "labeled"} ->
            IF ok2 THEN GAdd(GAdd(h, c.i, c.j, c.l), c.j, c.i, c.l) ELSE h
      [] c.op = "removeEdge" /\ Kind # "multi" -> IF ok2 THEN GDel(h, c.i, c.j) ELSE h
      [] c.op = "setEdgeLabel" ->
            IF ok2 /\ GHas(h, c.i, c.j) /\ Kind # "nolabel" THEN GPut(h, c.i, c.j, c.l) ELSE h
      [] c.op = "addEdge" /\ Kind = "multi" -> IF ok2 THEN GAddM(h, c.i, c.j, 1, c.f) ELSE h
      [] c.op = "addReciprocalEdge" /\ Kind = "multi" ->
            IF ok2 THEN GAddM(GAddM(h, c.i, c.j, 1, c.f), c.j, c.i, 1, c.f) ELSE h
      [] c.op = "addMultiedge" -> IF ok2 THEN GAddM(h, c.i, c.j, c.k, c.f) ELSE h
      [] c.op = "addReciprocalMultiedge" ->
            IF ok2 THEN GAddM(GAddM(h, c.i, c.j, c.k, c.f), c.j, c.i, c.k, c.f) ELSE h
      [] c.op = "removeEdge" /\ Kind = "multi" -> IF ok2 THEN GRemM(h, c.i, c.j, 1) ELSE h
      [] c.op = "removeMultiedge" -> IF ok2 THEN GRemM(h, c.i, c.j, c.k) ELSE h
      [] c.op = "setEdgeMultiplicity" ->
            IF ok2 THEN (IF c.k = 0 THEN GDel(h, c.i, c.j) ELSE GPut(h, c.i, c.j, c.k)) ELSE h
      [] c.op = "addEdge" /\ Kind = "weighted" -> IF ok2 THEN GAdd(h, c.i, c.j, c.w) ELSE h
      [] c.op = "setEdgeWeight" -> IF ok2 THEN GPut(h, c.i, c.j, c.w) ELSE h
      [] c.op = "addReciprocalEdge" /\ Kind = "weighted" ->   \* the named deviation, mirrored
            IF ok2 THEN LET w == IF c.f THEN 1 ELSE 0 IN GAdd(GAdd(h, c.i, c.j, w), c.j, c.i, w)
            ELSE h
      [] OTHER -> h                                             \* observers

\* one insertion of the pair (i,j) carrying attribute a, with force flag f, seen on
\* the copy counters of the ghost BEFORE the attribute step (h) - returns new cp/same
InsertCopy(h, i, j, a, f) ==
    LET a1 == K1(i, j)
        a2 == K2(i, j) IN
    IF h.cp[a1][a2] = 0 THEN [h EXCEPT !.cp[a1][a2] = 1]
    ELSE IF f THEN [h EXCEPT !.cp[a1][a2] = @ + 1,
                            !.same[a1][a2] = @ /\ (a = h.att[a1][a2])]
    ELSE h

IsAdd(c) == c.op \in {"addEdge", "addEdgeD", "addReciprocalEdge", "addMultiedge",
                      "addReciprocalMultiedge"}
AddAttr(c) == CASE c.op = "addEdgeD" -> DefL
                [] c.op \in {"addMultiedge", "addReciprocalMultiedge"} -> c.k
                [] Kind = "multi" -> 1
                [] Kind = "weighted" /\ c.op = "addReciprocalEdge" -> (IF c.f THEN 1 ELSE 0)
                [] Kind = "weighted" -> c.w
                [] OTHER -> c.l
AddForce(c) == IF Kind = "weighted" /\ c.op = "addReciprocalEdge" THEN FALSE ELSE c.f

GStep(h, c) ==
    LET h1 == GAttStep(h, c)                        \* attributes after the call
        ok2 == c.i \in VS(h.n) /\ c.j \in VS(h.n)
        hc == \* copy counters after the call, computed on the OLD attributes
              IF IsAdd(c) /\ ok2 /\ ~(Kind = "multi" /\ AddAttr(c) = 0)
              THEN LET x == InsertCopy(h, c.i, c.j, AddAttr(c), AddForce(c)) IN
                   IF c.op \in {"addReciprocalEdge", "addReciprocalMultiedge"}
                   THEN \* second insertion sees the attributes after the first
                        InsertCopy([x EXCEPT !.att = GAttStep(h, [c EXCEPT !.op =
                                       IF c.op = "addReciprocalEdge" THEN "addEdge" ELSE "addMultiedge"]).att],
                                   c.j, c.i, AddAttr(c), AddForce(c))
                   ELSE x
              ELSE h
        n1 == h1.n
    IN  [n    |-> n1,
         att  |-> h1.att,
         cp   |-> [i \in VS(n1) |-> [j \in VS(n1) |->
                     IF h1.att[i][j] = NoneL THEN 0
                     ELSE IF c.op = "removeDuplicateEdges" THEN 1
                     ELSE IF i < h.n /\ j < h.n /\ hc.cp[i][j] > 0 THEN hc.cp[i][j] ELSE 1]],
         \* a pair whose copies carried different attributes: for labels the mismatch
         \* disappears with the edge; the running totals of the multigraph and weighted
         \* classes stay off for good, so there the flag is sticky
         same |-> [i \in VS(n1) |-> [j \in VS(n1) |->
                     IF ~(i < h.n /\ j < h.n) THEN TRUE
                     ELSE IF h1.att[i][j] = NoneL /\ Kind \in {"nolabel", "labeled"} THEN TRUE
                     ELSE hc.same[i][j]]]]

=============================================================================
