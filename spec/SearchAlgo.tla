----------------------------- MODULE SearchAlgo -----------------------------
(***************************************************************************)
(* The three predecessor searches AS IMPLEMENTED (paths.hpp), one action   *)
(* per iteration of their main loop, with a counter of neighbourhood       *)
(* scans; model checked against the declarative layer of Search.tla on     *)
(* every graph (and weighting) within the bounds and every source.         *)
(*                                                                         *)
(*   "bfs"      findVertexPredecessors: FIFO queue, a vertex is marked     *)
(*              when it is DISCOVERED                                      *)
(*   "allpred"  findAllVertexPredecessors: a vertex is enqueued once per   *)
(*              discovering parent and marked when it is EXPANDED; queued  *)
(*              copies of an expanded vertex are skipped                   *)
(*   "dijkstra" findGeodesicsDijkstra: pop a minimum of the frontier,      *)
(*              relax with strict <, push on every improvement             *)
(*                                                                         *)
(* The order in which one vertex's neighbour list is traversed is chosen   *)
(* nondeterministically (every list order reachable by insertion order).   *)
(* Variant selects a deliberately wrong version so that the properties can *)
(* be seen to fail:                                                        *)
(*   "preD16"    allpred before the repair: expanded again for every       *)
(*               queued copy (scan bound fails)                            *)
(*   "nonstrict" dijkstra relaxing with <= (zero-weight cycles: the scan   *)
(*               bound - hence termination - fails)                        *)
(***************************************************************************)
EXTENDS Search

CONSTANTS Algo, Directed, MaxN, Weights, Variant

VARIABLES n, adj, w,         \* the input graph: adj[u] = set of neighbours, w[<<u,v>>] weight
          src,
          dist, pred,        \* dist: [V -> Int] (INF = unreached); pred: per vertex a vertex / a sequence
          mark,              \* processedVertices
          work,              \* queue (sequence) / Dijkstra frontier (sequence used as a bag)
          scans
vars == <<n, adj, w, src, dist, pred, mark, work, scans>>

V == VS(n)
E(u, v) == v \in adj[u]
EdgeCount == LET RECURSIVE S(_)
                 S(k) == IF k < 0 THEN 0 ELSE Cardinality(adj[k]) + S(k - 1)
             IN  S(n - 1)
W(u, v) == w[<<u, v>>]
Pairs(k) == VS(k) \X VS(k)

\* the graph is chosen over the CANONICAL pairs (all ordered pairs when directed, u <= v when
\* undirected), so that undirected graphs on 5 vertices are 2^15 and not 2^25 candidates
Canon(k) == {p \in Pairs(k) : Directed \/ p[1] <= p[2]}
CanonOf(u, v) == IF Directed \/ u <= v THEN <<u, v>> ELSE <<v, u>>
Init ==
    /\ n \in 1 .. MaxN
    /\ \E present \in [Canon(n) -> BOOLEAN] :
         /\ adj = [u \in VS(n) |-> {v \in VS(n) : present[CanonOf(u, v)]}]
         /\ \E wt \in [Canon(n) -> Weights] :
              \* weights of absent pairs are irrelevant: fix them so that they do not multiply states
              /\ \A p \in Canon(n) : (~present[p]) => wt[p] = CHOOSE x \in Weights : TRUE
              /\ w = [p \in Pairs(n) |-> wt[CanonOf(p[1], p[2])]]
    /\ src \in VS(n)
    /\ dist = [v \in VS(n) |-> IF v = src THEN 0 ELSE INF]
    /\ pred = [v \in VS(n) |-> IF Algo = "allpred" THEN <<>> ELSE IF Algo = "dijkstra" /\ v = src THEN src ELSE INF]
    /\ mark = [v \in VS(n) |-> v = src /\ (Algo = "bfs" \/ (Algo = "allpred" /\ Variant = "preD16"))]
    /\ work = <<src>>
    /\ scans = 0

\* all orders in which a neighbour list can be traversed
Orders(S) == {s \in [1 .. Cardinality(S) -> S] : \A i, j \in 1 .. Cardinality(S) : i # j => s[i] # s[j]}

RECURSIVE FoldNb(_, _, _)
FoldNb(Op(_, _), acc, s) == IF s = <<>> THEN acc ELSE FoldNb(Op, Op(acc, Head(s)), Tail(s))

\* ---- findVertexPredecessors
BfsStep ==
    /\ work # <<>>
    /\ LET cur == Head(work) IN
       \E ord \in Orders(adj[cur]) :
         LET st0 == [d |-> dist, p |-> pred, m |-> mark, q |-> work]
             visit(st, nb) ==
                 IF ~st.m[nb]
                 THEN [d |-> [st.d EXCEPT ![nb] = st.d[cur] + 1], p |-> [st.p EXCEPT ![nb] = cur],
                       m |-> [st.m EXCEPT ![nb] = TRUE], q |-> Append(st.q, nb)]
                 ELSE st
             st1 == FoldNb(visit, st0, ord)
         IN  /\ dist' = st1.d /\ pred' = st1.p /\ mark' = st1.m
             /\ work' = Tail(st1.q)
             /\ scans' = scans + 1
    /\ UNCHANGED <<n, adj, w, src>>

\* ---- findAllVertexPredecessors
Less(a, b) == b = INF \/ (a # INF /\ a <= b)          \* a <= b with INF = "unset" (SIZE_MAX-like)
InSeq(x, s) == \E k \in 1 .. Len(s) : s[k] = x
AllPredStep ==
    /\ work # <<>>
    /\ LET cur == Head(work) IN
       IF mark[cur] /\ Variant # "preD16"
       THEN \* a queued copy of an already expanded vertex: skipped without a scan
            /\ work' = Tail(work)
            /\ UNCHANGED <<dist, pred, mark, scans>>
       ELSE \E ord \in Orders(adj[cur]) :
              LET st0 == [d |-> dist, p |-> pred, q |-> work]
                  visit(st, nb) ==
                      IF ~mark[nb]
                      THEN LET nl == st.d[cur] + 1
                               add == Less(nl, st.d[nb]) /\ ~InSeq(cur, st.p[nb]) IN
                           [d |-> IF add THEN [st.d EXCEPT ![nb] = nl] ELSE st.d,
                            p |-> IF add THEN [st.p EXCEPT ![nb] = Append(@, cur)] ELSE st.p,
                            q |-> Append(st.q, nb)]
                      ELSE st
                  st1 == FoldNb(visit, st0, ord)
              IN  /\ dist' = st1.d /\ pred' = st1.p
                  /\ mark' = [mark EXCEPT ![cur] = TRUE]
                  /\ work' = Tail(st1.q)
                  /\ scans' = scans + 1
    /\ UNCHANGED <<n, adj, w, src>>

\* ---- findGeodesicsDijkstra
RemoveOne(s, k) == SubSeq(s, 1, k - 1) \o SubSeq(s, k + 1, Len(s))
DijkstraStep ==
    /\ work # <<>>
    /\ \E k \in 1 .. Len(work) :
         \* the front of a heap ordered by the current distances: some minimum
         /\ \A j \in 1 .. Len(work) : dist[work[k]] <= dist[work[j]]
         /\ LET cur == work[k] IN
            \E ord \in Orders(adj[cur]) :
              LET st0 == [d |-> dist, p |-> pred, q |-> RemoveOne(work, k)]
                  better(a, b) == IF Variant = "nonstrict" THEN (b = INF \/ a <= b) ELSE (b = INF \/ a < b)
                  visit(st, nb) ==
                      LET nl == st.d[cur] + W(cur, nb) IN
                      IF better(nl, st.d[nb])
                      THEN [d |-> [st.d EXCEPT ![nb] = nl], p |-> [st.p EXCEPT ![nb] = cur], q |-> Append(st.q, nb)]
                      ELSE st
                  st1 == FoldNb(visit, st0, ord)
              IN  /\ dist' = st1.d /\ pred' = st1.p /\ work' = st1.q
                  /\ scans' = scans + 1
    /\ UNCHANGED <<n, adj, w, src, mark>>

Next == CASE Algo = "bfs"      -> BfsStep
          [] Algo = "allpred"  -> AllPredStep
          [] Algo = "dijkstra" -> DijkstraStep

Done == work = <<>>

\* the frontier is a bag: its order is irrelevant for Dijkstra
View == <<n, adj, w, src, dist, pred, mark, work, scans>>

-----------------------------------------------------------------------------
TrueDist == Dist(n, E, src)

\* C19: the scan counters stay within the bound in EVERY reachable state, hence every
\* behaviour is finite: the searches terminate (scans increases with every expansion)
ScanBound ==
    CASE Algo = "bfs"      -> scans <= n
      [] Algo = "allpred"  -> scans <= n + EdgeCount
      [] Algo = "dijkstra" -> scans <= n + EdgeCount + 1
\* skipped copies do not scan but the queue stays bounded as well
WorkBound == Len(work) <= n + EdgeCount + 1

\* C11 at termination
BfsResultOK ==
    (Algo = "bfs" /\ Done) =>
        /\ dist = TrueDist
        /\ \A v \in V : IF v = src \/ TrueDist[v] = INF THEN pred[v] = INF
                        ELSE pred[v] \in AllPreds(n, E, TrueDist, v)
AllPredResultOK ==
    (Algo = "allpred" /\ Done) =>
        /\ dist = TrueDist
        /\ \A v \in V : /\ NoRepeat(pred[v])
                        /\ SeqSet(pred[v]) = (IF v = src \/ TrueDist[v] = INF THEN {}
                                               ELSE AllPreds(n, E, TrueDist, v))
\* C12 at termination
DijkstraResultOK ==
    (Algo = "dijkstra" /\ Done) =>
        LET wd == WDist(n, E, W, src) IN
        /\ dist = wd
        /\ \A v \in V : IF v = src THEN pred[v] = src
                        ELSE IF wd[v] = INF THEN pred[v] = INF
                        ELSE /\ pred[v] \in V /\ E(pred[v], v)
                             /\ dist[v] = dist[pred[v]] + W(pred[v], v)
=============================================================================
