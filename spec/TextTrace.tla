----------------------------- MODULE TextTrace -----------------------------
(***************************************************************************)
(* code -> spec for LARGE text edge lists (C13): files with thousands of   *)
(* lines, long comment lines, large vertex numbers.  Each record carries   *)
(* the lines of the file and the graph the real loader returned (as an     *)
(* edge list), and for files produced by the real writer the edges in      *)
(* enumeration order.  Validated line by line with the tokenizer and the   *)
(* writer's line format of TextFormat.tla.                                 *)
(***************************************************************************)
EXTENDS TextFormat, IOUtils

Recs == ndJsonDeserialize(IOEnv.RECORDS)
VARIABLE idx
TInit == idx \in 1 .. Len(Recs) /\ n = 0 /\ ins = <<>> /\ file = <<>>
TNext == UNCHANGED <<idx, n, ins, file>>

Trip(e) == <<e[1], e[2], e[3]>>
Canon3(e) == IF Directed \/ e[1] <= e[2] THEN Trip(e) ELSE <<e[2], e[1], e[3]>>

BigTextOK ==
    LET r == Recs[idx]
        data == SelectSeq(r.lines, LAMBDA s : ~IsComment(s))
        parsed(s) == LET tk == Tokenize(s) IN <<StoI(tk.t1), StoI(tk.t2), LabelOfText(tk.rest)>>
    IN
    \* written by the real writer: header, then one line per edge in enumeration order
    /\ r.written =>
          /\ Len(r.lines) = Len(r.edges) + 1
          /\ r.lines[1] = "# Vertex1 Vertex2 Label"
          /\ \A k \in 1 .. Len(r.edges) : r.lines[k + 1] = EdgeLine(Trip(r.edges[k]))
    \* what was loaded: every data line is an edge with its label, nothing else
    /\ \A k \in 1 .. Len(data) : Tokenize(data[k]).ok
    /\ r.loaded_en = Len(data)
    /\ Len(r.loaded_edges) = Len(data)
    /\ {Canon3(r.loaded_edges[k]) : k \in 1 .. Len(r.loaded_edges)} = {Canon3(parsed(data[k])) : k \in 1 .. Len(data)}
    /\ r.loaded_n = (IF Len(data) = 0 THEN 0
                     ELSE 1 + (CHOOSE m \in {parsed(data[k])[1] : k \in 1 .. Len(data)} \cup {parsed(data[k])[2] : k \in 1 .. Len(data)} :
                                 \A k \in 1 .. Len(data) : parsed(data[k])[1] <= m /\ parsed(data[k])[2] <= m))
    /\ r.written => r.equal_after_resize
=============================================================================
