----------------------------- MODULE TextFormat -----------------------------
(***************************************************************************)
(* Text edge lists (C13) and arbitrary text offered to the loaders (C15).  *)
(*                                                                         *)
(* A file is a sequence of lines (TLA+ strings; TLC evaluates Len, SubSeq  *)
(* and \o on strings).  The tokenizer is transcribed from                  *)
(* findEdgeFromString: first two whitespace-delimited tokens, the rest of  *)
(* the line after the following whitespace is the label text.  The loader  *)
(* is a fold over the lines: '#' lines skipped, vertex tokens converted by *)
(* stoi (loadTextEdgeList) or numbered in order of first appearance        *)
(* (loadTextVertexLabeledEdgeList), graph grown to the largest index,      *)
(* forced addEdge.  The writer emits the header line and one line per edge *)
(* in edges() order.                                                       *)
(*                                                                         *)
(* Labels are an abstract alphabet 0,1,2,... with a text form per codec:   *)
(*   "none"    unlabelled graphs: no label column                          *)
(*   "string"  std::string labels, written as they are                     *)
(*   "int"     int labels, written with std::to_string, read with stoi     *)
(* (the same tables as harness/common.hpp).                                *)
(***************************************************************************)
EXTENDS GraphOps, Json

CONSTANTS MaxN, MaxEdges, Codec, LabelVals, Mode,
          LineSet,     \* "full" | "small" | "tiny": how many spellings of a data line are enumerated
          EmitJson

VARIABLES n, ins,      \* "roundtrip": a graph shape (see BinFormat.tla)
          file         \* the other modes: a sequence of lines

vars == <<n, ins, file>>

StringText == <<"", "a", "hello world", "#x">>     \* Codec<std::string> of the harness
IntText    == <<"0", "-10", "7", "100">>           \* std::to_string of Codec<int>
\* a caller's own formatter / parser pair for char labels, in which a NON-default label ('a') is
\* written as the empty text ("the commonest label is omitted") and the default label as "0"
CharText   == <<"0", "", "Z", "#">>
LabelText(a) == IF Codec = "string" THEN StringText[a + 1] ELSE IF Codec = "int" THEN IntText[a + 1]
                ELSE IF Codec = "char" THEN CharText[a + 1] ELSE ""
\* the label parser handed the rest of the line (unknown text -> label 99)
LabelOfText(t) ==
    IF Codec = "none" THEN DefL
    ELSE IF \E a \in 0 .. 3 : LabelText(a) = t THEN CHOOSE a \in 0 .. 3 : LabelText(a) = t ELSE 99

-----------------------------------------------------------------------------
(* the tokenizer                                                            *)
WS == {" ", "\t", "\r", "\f"}
Ch(s, i) == SubSeq(s, i, i)
NPOS(s) == Len(s) + 1
\* std::string::find_first_not_of / find_first_of from position `from` (npos propagates)
FirstNotOf(s, from) ==
    IF \E i \in from .. Len(s) : Ch(s, i) \notin WS
    THEN CHOOSE i \in from .. Len(s) : Ch(s, i) \notin WS /\ \A j \in from .. (i - 1) : Ch(s, j) \in WS
    ELSE NPOS(s)
FirstOf(s, from) ==
    IF \E i \in from .. Len(s) : Ch(s, i) \in WS
    THEN CHOOSE i \in from .. Len(s) : Ch(s, i) \in WS /\ \A j \in from .. (i - 1) : Ch(s, j) \notin WS
    ELSE NPOS(s)
\* -> [ok |-> FALSE]  (std::out_of_range from substr: blank or one-token line)
\*    [ok |-> TRUE, t1, t2, rest]
Tokenize(s) ==
    LET p1 == FirstNotOf(s, 1)
        p2 == FirstOf(s, p1)
        p3 == FirstNotOf(s, p2)
        p4 == FirstOf(s, p3)
        p5 == FirstNotOf(s, p4) IN
    IF p1 = NPOS(s) \/ p3 = NPOS(s) THEN [ok |-> FALSE]
    ELSE [ok |-> TRUE, t1 |-> SubSeq(s, p1, p2 - 1), t2 |-> SubSeq(s, p3, p4 - 1),
          rest |-> IF p5 = NPOS(s) THEN "" ELSE SubSeq(s, p5, Len(s))]

Digits == {"0", "1", "2", "3", "4", "5", "6", "7", "8", "9"}
DigitVal(c) == CASE c = "0" -> 0 [] c = "1" -> 1 [] c = "2" -> 2 [] c = "3" -> 3 [] c = "4" -> 4
                 [] c = "5" -> 5 [] c = "6" -> 6 [] c = "7" -> 7 [] c = "8" -> 8 [] c = "9" -> 9
\* stoi as loadTextEdgeList uses it: optional sign, longest digit prefix; no digit ->
\* invalid_argument; more than 9 digits -> (here) out_of_range; negative -> out_of_range
\* -> -1 for "throws", else the index
StoI(t) ==
    LET neg == Len(t) >= 1 /\ Ch(t, 1) = "-"
        st == IF Len(t) >= 1 /\ Ch(t, 1) \in {"-", "+"} THEN 2 ELSE 1
        RECURSIVE Run(_)
        Run(i) == IF i <= Len(t) /\ Ch(t, i) \in Digits THEN Run(i + 1) ELSE i
        en == Run(st)
        RECURSIVE Val(_, _)
        Val(i, acc) == IF i >= en THEN acc ELSE Val(i + 1, acc * 10 + DigitVal(Ch(t, i)))
    IN  IF en = st \/ en - st > 9 \/ neg THEN -1 ELSE Val(st, 0)

-----------------------------------------------------------------------------
(* the loaders: fold over the lines.  state: graph value, name table, and for *)
(* the vertex-labelled loader the names met so far (VertexCountMapper)       *)
IsComment(s) == Len(s) >= 1 /\ Ch(s, 1) = "#"
SetAt(tab, i, x) == [k \in 1 .. (IF i + 1 > Len(tab) THEN i + 1 ELSE Len(tab)) |->
                         IF k = i + 1 THEN x ELSE IF k <= Len(tab) THEN tab[k] ELSE ""]
IndexIn(seen, x) == IF \E k \in 1 .. Len(seen) : seen[k] = x
                    THEN (CHOOSE k \in 1 .. Len(seen) : seen[k] = x) - 1 ELSE Len(seen)
Max2(a, b) == IF a >= b THEN a ELSE b

\* -> [ok |-> FALSE] when some line makes the loader throw, else [ok, g, names]
LoadLines(lines, named) ==
    LET RECURSIVE L(_, _)
        L(st, k) ==
            IF ~st.ok \/ k > Len(lines) THEN st
            ELSE IF IsComment(lines[k]) THEN L(st, k + 1)
            ELSE LET tk == Tokenize(lines[k]) IN
                 IF ~tk.ok THEN [ok |-> FALSE]
                 ELSE LET seen1 == IF named /\ IndexIn(st.seen, tk.t1) = Len(st.seen)
                                   THEN Append(st.seen, tk.t1) ELSE st.seen
                          v1 == IF named THEN IndexIn(seen1, tk.t1) ELSE StoI(tk.t1)
                          seen2 == IF named /\ IndexIn(seen1, tk.t2) = Len(seen1)
                                   THEN Append(seen1, tk.t2) ELSE seen1
                          v2 == IF named THEN IndexIn(seen2, tk.t2) ELSE StoI(tk.t2)
                      IN  IF v1 < 0 \/ v2 < 0 THEN [ok |-> FALSE]
                          ELSE LET m == Max2(v1, v2)
                                   g1 == IF m >= st.g.n THEN Resize(st.g, m + 1) ELSE st.g
                                   nm1 == SetAt(SetAt(IF m + 1 > Len(st.names) THEN SetAt(st.names, m, "") ELSE st.names,
                                                      v1, tk.t1), v2, tk.t2)
                               IN  L([ok |-> TRUE, g |-> AddEdgeL(g1, v1, v2, LabelOfText(tk.rest), TRUE),
                                      names |-> nm1, seen |-> seen2], k + 1)
    IN  L([ok |-> TRUE, g |-> Empty(0), names |-> <<>>, seen |-> <<>>], 1)

-----------------------------------------------------------------------------
(* the writer, on a shape (insertion sequence; see BinFormat.tla)            *)
RECURSIVE Build(_, _)
Build(l, s) ==
    IF s = <<>> THEN l
    ELSE LET a == Head(s)[1]
             b == Head(s)[2] IN
         IF Directed THEN Build([l EXCEPT ![a] = Append(@, b)], Tail(s))
         ELSE LET l1 == IF a # b THEN [l EXCEPT ![a] = Append(@, b)] ELSE l IN
              Build([l1 EXCEPT ![b] = Append(@, a)], Tail(s))
Lists == Build([v \in VS(n) |-> <<>>], ins)
LabelOfPair(i, j) ==
    LET k == CHOOSE k \in 1 .. Len(ins) : Key(ins[k][1], ins[k][2]) = Key(i, j) IN ins[k][3]
RECURSIVE FlattenFrom(_)
FlattenFrom(v) ==
    IF v >= n THEN <<>>
    ELSE LET RECURSIVE F(_)
             F(s) == IF s = <<>> THEN <<>>
                     ELSE (IF Directed \/ v <= Head(s) THEN <<<<v, Head(s), LabelOfPair(v, Head(s))>>>> ELSE <<>>)
                          \o F(Tail(s))
         IN  F(Lists[v]) \o FlattenFrom(v + 1)
EdgeOrder == FlattenFrom(0)
EdgeLine(e) == IF Codec = "none" THEN ToString(e[1]) \o " " \o ToString(e[2])
               ELSE ToString(e[1]) \o " " \o ToString(e[2]) \o " " \o LabelText(e[3])
WriteLines == <<"# Vertex1 Vertex2 Label">> \o [k \in 1 .. Len(EdgeOrder) |-> EdgeLine(EdgeOrder[k])]

RECURSIVE AddAll(_, _)
AddAll(g, s) == IF s = <<>> THEN g
                ELSE AddAll(AddEdgeL(g, Head(s)[1], Head(s)[2], Head(s)[3], FALSE), Tail(s))
Value == AddAll(Empty(n), ins)
MaxIndex == LET RECURSIVE M(_)
                M(k) == IF k > Len(ins) THEN -1
                        ELSE LET a == Max2(ins[k][1], ins[k][2]) IN Max2(a, M(k + 1))
            IN  M(1)

-----------------------------------------------------------------------------
(* cases                                                                    *)
CanonPairs(k) == {p \in VS(k) \X VS(k) : Directed \/ p[1] <= p[2]}
Perms(S) == {s \in [1 .. Cardinality(S) -> S] : \A i, j \in 1 .. Cardinality(S) : i # j => s[i] # s[j]}
LVals == IF Codec = "none" THEN {DefL} ELSE LabelVals

\* well-formed lines assembled from pieces: optional leading whitespace, two vertex
\* tokens, whitespace runs, optional label text, optional trailing whitespace; comments
Ws0   == CASE LineSet = "full" -> {"", " ", "\t ", "  "} [] LineSet = "small" -> {"", " "} [] OTHER -> {""}
Ws1   == CASE LineSet = "full" -> {" ", "\t", " \t ", "   "} [] LineSet = "small" -> {" ", "\t "} [] OTHER -> {" "}
Ws2   == CASE LineSet = "full" -> {" ", "\t  "} [] OTHER -> {" "}
NumTok == CASE LineSet = "full" -> {"0", "1", "2", "10", "+1", "01"} [] OTHER -> {"0", "1", "2"}
NameTok == CASE LineSet = "full" -> {"a", "bb", "x#", "0", "10", "b"} [] OTHER -> {"a", "bb", "0"}
Rests == IF Codec = "none" THEN {""} ELSE {LabelText(a) : a \in LabelVals}
TrailWs == CASE LineSet = "full" -> {"", " ", "\t"} [] LineSet = "small" -> {"", " "} [] OTHER -> {""}
DataLines(Tok) == {w0 \o t1 \o w1 \o t2 \o (IF r = "" THEN tw ELSE w2 \o r) :
                       w0 \in Ws0, t1 \in Tok, w1 \in Ws1, t2 \in Tok, w2 \in Ws2, r \in Rests, tw \in TrailWs}
CommentLines == IF LineSet = "tiny" THEN {"#0 1"} ELSE {"#", "# x", "#0 1", "# Vertex1 Vertex2 Label"}
\* malformed lines (C15)
BadLines == {"", " ", "7", " 7 ", "a b", "x 1", "1 y", "-1 0", "0 -1", "-2 3", "99999999999 0", "0 99999999999",
             "1x 0", "0 1 2 3", "\t", "0", "0,1", "1;2 3",
             \* indices at the edges of the 32-bit ranges (too large to allocate if accepted: must throw)
             "4294967295 0", "0 4294967295", "2147483648 1", "4294967296 0", "-2147483648 0", "+ 1", "- 1"}

\* canonical spelling of a well-formed line: tokens separated by single spaces
Canonical(s) == LET tk == Tokenize(s) IN
                IF IsComment(s) \/ ~tk.ok THEN s
                ELSE tk.t1 \o " " \o tk.t2 \o (IF tk.rest = "" THEN "" ELSE " " \o tk.rest)

Init ==
    CASE Mode = "roundtrip" ->
           /\ n \in 0 .. MaxN
           /\ \E P \in SUBSET CanonPairs(n) :
                /\ Cardinality(P) <= MaxEdges
                /\ \E ord \in Perms(P) : \E lb \in [1 .. Cardinality(P) -> LVals] :
                     ins = [k \in 1 .. Cardinality(P) |-> <<ord[k][1], ord[k][2], lb[k]>>]
           /\ file = <<>>
      [] Mode \in {"load", "named"} ->
           /\ n = 0 /\ ins = <<>>
           /\ \E len \in 0 .. MaxEdges :
                file \in [1 .. len -> DataLines(IF Mode = "named" THEN NameTok ELSE NumTok) \cup CommentLines]
      [] Mode = "malformed" ->
           /\ n = 0 /\ ins = <<>>
           /\ \E len \in 1 .. MaxEdges :
                /\ file \in [1 .. len -> {"0 1", "2 0 a", "# c"} \cup BadLines]
                /\ \E k \in 1 .. len : file[k] \in BadLines
Next == UNCHANGED vars

-----------------------------------------------------------------------------
(* C13                                                                      *)
\* writing and reading back gives 1 + largest used index vertices and, resized, the original
RoundTripOK ==
    Mode = "roundtrip" =>
        LET r == LoadLines(WriteLines, FALSE) IN
        /\ r.ok
        /\ r.g.n = 1 + MaxIndex
        /\ Resize(r.g, n) = Value
\* comment lines and the amount of horizontal whitespace do not matter
WhitespaceOK ==
    Mode \in {"load", "named"} =>
        LET a == LoadLines(file, Mode = "named")
            b == LoadLines([k \in 1 .. Len(file) |-> Canonical(file[k])], Mode = "named") IN
        a.ok /\ b.ok /\ a.g = b.g /\ a.names = b.names
\* names numbered 0,1,2,... in order of first appearance; names[index(x)] = x for every name
NamesOK ==
    Mode = "named" =>
        LET r == LoadLines(file, TRUE) IN
        /\ r.ok
        /\ Len(r.names) = Len(r.seen) /\ r.g.n = Len(r.seen)
        /\ \A k \in 1 .. Len(r.seen) : r.names[k] = r.seen[k]
        /\ \A i, j \in 1 .. Len(r.seen) : i # j => r.seen[i] # r.seen[j]

RECURSIVE Join(_)
Join(ls) == IF ls = <<>> THEN "" ELSE Head(ls) \o "\n" \o Join(Tail(ls))
Outcome(r) == IF r.ok THEN [ok |-> TRUE, g |-> Enc(r.g), names |-> r.names] ELSE [ok |-> FALSE]

EmitInv ==
    EmitJson =>
      CASE Mode = "roundtrip" ->
             PrintT(ToJson([k |-> "text_roundtrip", dir |-> Directed, codec |-> Codec, n |-> n, ins |-> ins,
                            text |-> Join(WriteLines), loaded |-> Outcome(LoadLines(WriteLines, FALSE)),
                            value |-> Enc(Value)]))
        [] Mode \in {"load", "named"} ->
             PrintT(ToJson([k |-> "text_load", dir |-> Directed, codec |-> Codec, named |-> (Mode = "named"),
                            text |-> Join(file), loaded |-> Outcome(LoadLines(file, Mode = "named")), strict |-> TRUE]))
        [] Mode = "malformed" ->
             \* C15: either a graph or an exception derived from std::exception - never a crash
             PrintT(ToJson([k |-> "text_load", dir |-> Directed, codec |-> Codec, named |-> FALSE,
                            text |-> Join(file), loaded |-> Outcome(LoadLines(file, FALSE)), strict |-> FALSE]))
=============================================================================
