---------------------------- MODULE SearchTrace ----------------------------
(***************************************************************************)
(* code -> spec for the searches and remaps: every record written by the   *)
(* C++ harness (one per graph and source; inputs enumerated by Derived.tla *)
(* or generated at random / from path-explosive families) must satisfy the *)
(* declarative predicates of Search.tla.  Each record is an initial state, *)
(* so TLC's workers validate them in parallel; a record that does not      *)
(* satisfy RecordOK is reported as an invariant violation with the record  *)
(* as the counterexample state.                                            *)
(***************************************************************************)
EXTENDS Search, IOUtils

Records == ndJsonDeserialize(IOEnv.RECORDS)

VARIABLE idx
Init == idx \in 1 .. Len(Records)
Next == UNCHANGED idx

AllResultsOK == ResultsOK(Records[idx])      \* C10, C11, C12
AllScansOK   == ScansOK(Records[idx])        \* C19
=============================================================================
