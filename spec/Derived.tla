------------------------------ MODULE Derived ------------------------------
(***************************************************************************)
(* Pure constructions on graph values (C09, C10): reversal, the two        *)
(* conversions between directed and undirected graphs, the edge-list       *)
(* constructors of all classes, and subgraph extraction - each written as  *)
(* the loop the code runs, over the operators of GraphOps, and each        *)
(* checked against its declarative meaning.                                *)
(*                                                                         *)
(* There is no history here: the "state" is one input case x, every case   *)
(* of the finite input space is an initial state, and the properties are   *)
(* invariants evaluated on every one of them.  With EmitJson each case is  *)
(* also printed together with the expected result, for the C++ harness to  *)
(* run the real function on (spec -> code).                                *)
(***************************************************************************)
EXTENDS Integers, Sequences, FiniteSets, TLC, Json

CONSTANTS Kind,       \* "nolabel" | "labeled" | "multi" | "weighted"
          Pinned,
          Mode,       \* which family of cases this run enumerates
          MaxN,       \* graphs on 0..MaxN vertices
          Attrs,      \* attribute values of edges (labels / multiplicities / weights)
          MaxLen,     \* edge lists of length <= MaxLen
          EmitJson

D == INSTANCE GraphOps WITH Directed <- TRUE
U == INSTANCE GraphOps WITH Directed <- FALSE

NoneL == D!NoneL
VS(n) == 0 .. (n - 1)
AttrsNeg == {-1, 2}             \* for .cfg files (no negative literals there)

VARIABLE x
vars == <<x>>

-----------------------------------------------------------------------------
(* All graph VALUES on n vertices: one attribute or "absent" per canonical   *)
(* key.  FromAtt builds the representation the classes would hold for it.   *)

CanonD(n) == VS(n) \X VS(n)
CanonU(n) == {p \in VS(n) \X VS(n) : p[1] <= p[2]}
AttSpace(C) == [C -> Attrs \cup {NoneL}]

Total(att, C) ==
    LET RECURSIVE S(_)
        S(R) == IF R = {} THEN 0
                ELSE LET p == CHOOSE q \in R : TRUE IN
                     (IF att[p] = NoneL THEN 0 ELSE att[p]) + S(R \ {p})
    IN  S(C)

DGraph(n, att) ==
    [n |-> n,
     adj |-> [i \in VS(n) |-> [j \in VS(n) |-> IF att[<<i, j>>] # NoneL THEN 1 ELSE 0]],
     lab |-> [i \in VS(n) |-> [j \in VS(n) |-> IF Kind = "nolabel" THEN NoneL ELSE att[<<i, j>>]]],
     en  |-> Cardinality({p \in CanonD(n) : att[p] # NoneL}),
     tot |-> IF Kind \in {"multi", "weighted"} THEN Total(att, CanonD(n)) ELSE 0]
UGraph(n, att) ==
    [n |-> n,
     adj |-> [i \in VS(n) |-> [j \in VS(n) |->
                 IF att[IF i <= j THEN <<i, j>> ELSE <<j, i>>] # NoneL THEN 1 ELSE 0]],
     lab |-> [i \in VS(n) |-> [j \in VS(n) |->
                 IF Kind = "nolabel" \/ i > j THEN NoneL ELSE att[<<i, j>>]]],
     en  |-> Cardinality({p \in CanonU(n) : att[p] # NoneL}),
     tot |-> IF Kind \in {"multi", "weighted"} THEN Total(att, CanonU(n)) ELSE 0]

\* cells of an n x n matrix in row-major order: the order in which the code's loops
\* "for i: for j in list(i)" can meet them (the order WITHIN a list is not fixed, and
\* none of the constructions below depends on it)
Cells(n) == [k \in 1 .. n * n |-> <<(k - 1) \div n, (k - 1) % n>>]
RECURSIVE FoldCells(_, _, _)
FoldCells(Op(_, _, _), acc, s) ==
    IF s = <<>> THEN acc ELSE FoldCells(Op, Op(acc, Head(s)[1], Head(s)[2]), Tail(s))

LabD(g, i, j) == IF Kind = "nolabel" THEN D!DefL ELSE g.lab[i][j]
LabU(g, i, j) == IF Kind = "nolabel" THEN U!DefL ELSE U!StoredLabel(g, i, j)

-----------------------------------------------------------------------------
(* getReversedGraph: for every edge (i,j) of edges(): addEdge(j, i, label(i,j)) *)
Reverse(g) ==
    FoldCells(LAMBDA acc, i, j : IF g.adj[i][j] > 0 THEN D!AddEdgeL(acc, j, i, LabD(g, i, j), FALSE) ELSE acc,
              D!Empty(g.n), Cells(g.n))

(* getDirectedGraph: for every edge of edges() (first <= second):                *)
(*   first < second: addReciprocalEdge(first, second, label, force=true)         *)
(*   first = second: addEdge(first, first, label, force=true)                    *)
ToDirected(u) ==
    FoldCells(LAMBDA acc, i, j :
                 IF i <= j /\ u.adj[i][j] > 0
                 THEN IF i < j
                      THEN D!AddEdgeL(D!AddEdgeL(acc, i, j, LabU(u, i, j), TRUE), j, i, LabU(u, i, j), TRUE)
                      ELSE D!AddEdgeL(acc, i, i, LabU(u, i, i), TRUE)
                 ELSE acc,
              D!Empty(u.n), Cells(u.n))

(* LabeledUndirectedGraph(const Directed&): for i ascending, for j in out(i):    *)
(*   addEdge(i, j, label(i,j))  - unforced, so the first orientation met wins    *)
ToUndirected(d) ==
    FoldCells(LAMBDA acc, i, j : IF d.adj[i][j] > 0 THEN U!AddEdgeL(acc, i, j, LabD(d, i, j), FALSE) ELSE acc,
              U!Empty(d.n), Cells(d.n))

(* the edge-list constructors: grow to 1 + largest index met so far, then add     *)
Max2(a, b) == IF a >= b THEN a ELSE b
AddOneD(g, e) == CASE Kind = "multi"    -> D!AddMultiedge(g, e[1], e[2], e[3], FALSE)
                   [] Kind = "weighted" -> D!AddEdgeW(g, e[1], e[2], e[3], FALSE)
                   [] OTHER             -> D!AddEdgeL(g, e[1], e[2], e[3], FALSE)
AddOneU(g, e) == CASE Kind = "multi"    -> U!AddMultiedge(g, e[1], e[2], e[3], FALSE)
                   [] Kind = "weighted" -> U!AddEdgeW(g, e[1], e[2], e[3], FALSE)
                   [] OTHER             -> U!AddEdgeL(g, e[1], e[2], e[3], FALSE)
RECURSIVE CtorD(_, _), CtorU(_, _)
CtorD(g, s) == IF s = <<>> THEN g
               ELSE LET e == Head(s)
                        m == Max2(e[1], e[2])
                        g1 == IF m >= g.n THEN D!Resize(g, m + 1) ELSE g
                    IN  CtorD(AddOneD(g1, e), Tail(s))
CtorU(g, s) == IF s = <<>> THEN g
               ELSE LET e == Head(s)
                        m == Max2(e[1], e[2])
                        g1 == IF m >= g.n THEN U!Resize(g, m + 1) ELSE g
                    IN  CtorU(AddOneU(g1, e), Tail(s))
FromEdgeListD(s) == CtorD(D!Empty(0), s)
FromEdgeListU(s) == CtorU(U!Empty(0), s)

\* "the one obtained by adding those edges one at a time" to a graph of 1+largest vertices
RECURSIVE MaxIdx(_), AddAllD(_, _), AddAllU(_, _)
MaxIdx(s) == IF s = <<>> THEN -1 ELSE Max2(Max2(Head(s)[1], Head(s)[2]), MaxIdx(Tail(s)))
AddAllD(g, s) == IF s = <<>> THEN g ELSE AddAllD(AddOneD(g, Head(s)), Tail(s))
AddAllU(g, s) == IF s = <<>> THEN g ELSE AddAllU(AddOneU(g, Head(s)), Tail(s))

(* getSubgraph(g, S): for i in S, for j in out(i): if j in S: sub.addEdge(i, j, label) *)
SubgraphD(g, S) ==
    FoldCells(LAMBDA acc, i, j : IF i \in S /\ j \in S /\ g.adj[i][j] > 0
                                 THEN D!AddEdgeL(acc, i, j, LabD(g, i, j), FALSE) ELSE acc,
              D!Empty(g.n), Cells(g.n))
SubgraphU(g, S) ==
    FoldCells(LAMBDA acc, i, j : IF i \in S /\ j \in S /\ g.adj[i][j] > 0
                                 THEN U!AddEdgeL(acc, i, j, LabU(g, i, j), FALSE) ELSE acc,
              U!Empty(g.n), Cells(g.n))
\* declaratively: same vertices, exactly the edges with both endpoints in S, same labels
InducedD(g, S) ==
    LET keep(i, j) == i \in S /\ j \in S /\ g.adj[i][j] > 0 IN
    [n |-> g.n,
     adj |-> [i \in VS(g.n) |-> [j \in VS(g.n) |-> IF keep(i, j) THEN 1 ELSE 0]],
     lab |-> [i \in VS(g.n) |-> [j \in VS(g.n) |-> IF keep(i, j) THEN g.lab[i][j] ELSE NoneL]],
     en  |-> Cardinality({p \in CanonD(g.n) : keep(p[1], p[2])}),
     tot |-> 0]
InducedU(g, S) ==
    LET keep(i, j) == i \in S /\ j \in S /\ g.adj[i][j] > 0 IN
    [n |-> g.n,
     adj |-> [i \in VS(g.n) |-> [j \in VS(g.n) |-> IF keep(i, j) THEN 1 ELSE 0]],
     lab |-> [i \in VS(g.n) |-> [j \in VS(g.n) |-> IF keep(i, j) /\ i <= j THEN g.lab[i][j] ELSE NoneL]],
     en  |-> Cardinality({p \in CanonU(g.n) : keep(p[1], p[2])}),
     tot |-> 0]

-----------------------------------------------------------------------------
(* The cases                                                                 *)
EdgeTriples == {<<i, j, a>> : i \in VS(MaxN), j \in VS(MaxN), a \in Attrs}

\* C07 for the algorithms: entry points taking vertex indices; arguments out of range
\* are size, size+1 and UINT_MAX (written MAXU = -1)
SearchFns == {"findVertexPredecessors", "findAllVertexPredecessors", "findGeodesics", "findAllGeodesics",
              "findGeodesicsFromVertex", "findAllGeodesicsFromVertex", "findPathToVertexFromPredecessors",
              "findMultiplePathsToVertexFromPredecessors", "getSubgraph", "getSubgraphWithRemap"}
TwoVertexFns == {"findGeodesics", "findAllGeodesics", "findPathToVertexFromPredecessors",
                 "findMultiplePathsToVertexFromPredecessors", "getSubgraph", "getSubgraphWithRemap"}
BadVals(n) == {n, n + 1, D!MAXU}
\* the reconstruction helpers receive a predecessor table next to the graph; it need not have been
\* computed on this graph (e.g. on the graph a subgraph was taken from): its length is the graph's
\* size or larger.  "Out of range" is decided by getSize(), never by the table.
ReconFns == {"findPathToVertexFromPredecessors", "findMultiplePathsToVertexFromPredecessors"}
TabLens(fn, n) == IF fn \in ReconFns THEN {n, n + 2} ELSE {n}
ArgPairs(n) == (VS(n) \cup BadVals(n)) \X (VS(n) \cup BadVals(n))
\* the documented outcome: std::out_of_range iff an index that the function receives is
\* not a vertex
Outcome(n, fn, s, t) ==
    IF s \notin VS(n) \/ (fn \in TwoVertexFns /\ t \notin VS(n)) THEN "out_of_range" ELSE "ok"

\* every case is an initial state (enumerated lazily: no set of all cases is ever built)
Init ==
    CASE Mode = "reverse"      -> \E n \in 0 .. MaxN : \E a \in AttSpace(CanonD(n)) :
                                     x = [k |-> "reverse", g |-> DGraph(n, a)]
      [] Mode = "todirected"   -> \E n \in 0 .. MaxN : \E a \in AttSpace(CanonU(n)) :
                                     x = [k |-> "todirected", g |-> UGraph(n, a)]
      [] Mode = "toundirected" -> \E n \in 0 .. MaxN : \E a \in AttSpace(CanonD(n)) :
                                     x = [k |-> "toundirected", g |-> DGraph(n, a)]
      [] Mode = "edgelist"     -> \E m \in 0 .. MaxLen : \E s \in [1 .. m -> EdgeTriples] :
                                     x = [k |-> "edgelist", s |-> s]
      \* inputs of the path searches (results are validated by SearchTrace.tla)
      [] Mode = "searchD"      -> \E n \in 0 .. MaxN : \E a \in AttSpace(CanonD(n)) :
                                     x = [k |-> "search", dir |-> TRUE, g |-> DGraph(n, a)]
      [] Mode = "searchU"      -> \E n \in 0 .. MaxN : \E a \in AttSpace(CanonU(n)) :
                                     x = [k |-> "search", dir |-> FALSE, g |-> UGraph(n, a)]
      [] Mode = "dijkstraD"    -> \E n \in 0 .. MaxN : \E a \in AttSpace(CanonD(n)) :
                                     x = [k |-> "dijkstra", dir |-> TRUE, g |-> DGraph(n, a)]
      [] Mode = "dijkstraU"    -> \E n \in 0 .. MaxN : \E a \in AttSpace(CanonU(n)) :
                                     x = [k |-> "dijkstra", dir |-> FALSE, g |-> UGraph(n, a)]
      \* C07: every search / subgraph entry point x argument position x bad value
      [] Mode = "rejectD"      -> \E n \in 0 .. MaxN : \E a \in AttSpace(CanonD(n)) :
                                  \E fn \in SearchFns : \E p \in ArgPairs(n) : \E tab \in TabLens(fn, n) :
                                     x = [k |-> "reject", dir |-> TRUE, g |-> DGraph(n, a), fn |-> fn,
                                          s |-> p[1], t |-> p[2], tab |-> tab]
      [] Mode = "rejectU"      -> \E n \in 0 .. MaxN : \E a \in AttSpace(CanonU(n)) :
                                  \E fn \in SearchFns : \E p \in ArgPairs(n) : \E tab \in TabLens(fn, n) :
                                     x = [k |-> "reject", dir |-> FALSE, g |-> UGraph(n, a), fn |-> fn,
                                          s |-> p[1], t |-> p[2], tab |-> tab]
      [] Mode = "rejectWD"     -> \E n \in 0 .. MaxN : \E a \in AttSpace(CanonD(n)) : \E s \in VS(n) \cup BadVals(n) :
                                     x = [k |-> "reject_dijkstra", dir |-> TRUE, g |-> DGraph(n, a), s |-> s]
      [] Mode = "rejectWU"     -> \E n \in 0 .. MaxN : \E a \in AttSpace(CanonU(n)) : \E s \in VS(n) \cup BadVals(n) :
                                     x = [k |-> "reject_dijkstra", dir |-> FALSE, g |-> UGraph(n, a), s |-> s]
      [] Mode = "subgraphD"    -> \E n \in 0 .. MaxN : \E a \in AttSpace(CanonD(n)) : \E S \in SUBSET VS(n) :
                                     x = [k |-> "subgraphD", g |-> DGraph(n, a), S |-> S]
      [] Mode = "subgraphU"    -> \E n \in 0 .. MaxN : \E a \in AttSpace(CanonU(n)) : \E S \in SUBSET VS(n) :
                                     x = [k |-> "subgraphU", g |-> UGraph(n, a), S |-> S]
Next == UNCHANGED x

SetToSortedSeq(S) ==
    LET RECURSIVE R(_)
        R(T) == IF T = {} THEN <<>>
                ELSE LET m == CHOOSE v \in T : \A w \in T : v <= w IN <<m>> \o R(T \ {m})
    IN  R(S)

\* spec -> code: the case and what the real function must return
Emit ==
    EmitJson =>
      CASE x.k = "reverse"      -> PrintT(ToJson([k |-> x.k, g |-> D!Enc(x.g), out |-> D!Enc(Reverse(x.g))]))
        [] x.k = "todirected"   -> PrintT(ToJson([k |-> x.k, g |-> U!Enc(x.g), out |-> D!Enc(ToDirected(x.g))]))
        [] x.k = "toundirected" -> PrintT(ToJson([k |-> x.k, g |-> D!Enc(x.g), out |-> U!Enc(ToUndirected(x.g))]))
        [] x.k = "edgelist"     -> PrintT(ToJson([k |-> (CASE Kind = "multi" -> "edgelist_multi"
                                                          [] Kind = "weighted" -> "edgelist_weighted"
                                                          [] OTHER -> "edgelist"),
                                                  s |-> x.s, outD |-> D!Enc(FromEdgeListD(x.s)),
                                                  outU |-> U!Enc(FromEdgeListU(x.s))]))
        [] x.k \in {"search", "dijkstra"} ->
              PrintT(ToJson([k |-> x.k, dir |-> x.dir, g |-> IF x.dir THEN D!Enc(x.g) ELSE U!Enc(x.g)]))
        [] x.k = "reject" ->
              PrintT(ToJson([k |-> x.k, dir |-> x.dir, g |-> IF x.dir THEN D!Enc(x.g) ELSE U!Enc(x.g),
                             fn |-> x.fn, s |-> x.s, t |-> (IF x.fn \in TwoVertexFns THEN x.t ELSE x.s),
                             tab |-> x.tab, out |-> Outcome(x.g.n, x.fn, x.s, x.t)]))
        [] x.k = "reject_dijkstra" ->
              PrintT(ToJson([k |-> x.k, dir |-> x.dir, g |-> IF x.dir THEN D!Enc(x.g) ELSE U!Enc(x.g),
                             s |-> x.s, out |-> Outcome(x.g.n, "dijkstra", x.s, x.s)]))
        [] x.k = "subgraphD"    -> PrintT(ToJson([k |-> x.k, g |-> D!Enc(x.g), S |-> SetToSortedSeq(x.S),
                                                  out |-> D!Enc(SubgraphD(x.g, x.S))]))
        [] x.k = "subgraphU"    -> PrintT(ToJson([k |-> x.k, g |-> U!Enc(x.g), S |-> SetToSortedSeq(x.S),
                                                  out |-> U!Enc(SubgraphU(x.g, x.S))]))

EmitInv == Emit      \* evaluated (as an invariant) once on every case

-----------------------------------------------------------------------------
(* C09                                                                       *)
\* reversal: exactly (j,i) with the label of (i,j); reversing twice is the identity
ReverseOK ==
    x.k = "reverse" =>
      LET r == Reverse(x.g) IN
      /\ r.n = x.g.n /\ r.en = x.g.en
      /\ \A i, j \in VS(x.g.n) : r.adj[j][i] = x.g.adj[i][j] /\ r.lab[j][i] = x.g.lab[i][j]
      /\ Reverse(r) = x.g
\* getDirectedGraph: both orientations of every edge (one for a loop) with the edge's label
ToDirectedOK ==
    x.k = "todirected" =>
      LET d == ToDirected(x.g) IN
      /\ d.n = x.g.n
      /\ \A i, j \in VS(x.g.n) : d.adj[i][j] = x.g.adj[i][j]
      /\ \A i, j \in VS(x.g.n) : d.lab[i][j] = (IF Kind = "nolabel" THEN NoneL ELSE U!StoredLabel(x.g, i, j))
      /\ d.en = Cardinality({p \in CanonD(x.g.n) : x.g.adj[p[1]][p[2]] > 0})
      \* undirected -> directed -> undirected is the identity
      /\ ToUndirected(d) = x.g
\* undirected from directed: connects exactly the pairs joined in either direction, each
\* labelled as ONE OF the directed edges between them
ToUndirectedOK ==
    x.k = "toundirected" =>
      LET u == ToUndirected(x.g)
          joined(i, j) == x.g.adj[i][j] > 0 \/ x.g.adj[j][i] > 0 IN
      /\ u.n = x.g.n
      /\ \A i, j \in VS(x.g.n) : u.adj[i][j] = (IF joined(i, j) THEN 1 ELSE 0)
      /\ u.en = Cardinality({p \in CanonU(x.g.n) : joined(p[1], p[2])})
      /\ Kind # "nolabel" =>
           \A p \in CanonU(x.g.n) :
              IF joined(p[1], p[2])
              THEN u.lab[p[1]][p[2]] \in ({x.g.lab[p[1]][p[2]], x.g.lab[p[2]][p[1]]} \ {NoneL})
              ELSE u.lab[p[1]][p[2]] = NoneL
\* edge-list constructors: 1 + largest index vertices (none for an empty container) and
\* equal to adding the edges one at a time
EdgeListOK ==
    x.k = "edgelist" =>
      /\ FromEdgeListD(x.s).n = MaxIdx(x.s) + 1
      /\ FromEdgeListU(x.s).n = MaxIdx(x.s) + 1
      /\ FromEdgeListD(x.s) = AddAllD(D!Empty(MaxIdx(x.s) + 1), x.s)
      /\ FromEdgeListU(x.s) = AddAllU(U!Empty(MaxIdx(x.s) + 1), x.s)
(* C10 *)
SubgraphOK ==
    /\ x.k = "subgraphD" => SubgraphD(x.g, x.S) = InducedD(x.g, x.S)
    /\ x.k = "subgraphU" => SubgraphU(x.g, x.S) = InducedU(x.g, x.S)
=============================================================================
