---------------------------- MODULE MachineTrace ----------------------------
(***************************************************************************)
(* code -> spec: validation of executions RECORDED FROM THE REAL CLASSES   *)
(* against Machine.tla.                                                    *)
(*                                                                         *)
(* The harness (`gh record`) drives a real object through seeded random    *)
(* call histories and logs, per call, the call record, the outcome and the *)
(* complete projection of the object (GraphOps!Obs, computed through the   *)
(* public API).  Each logged event must be the corresponding instance of   *)
(* Step from the current specification state: same outcome, and every      *)
(* logged observer equal to the observer computed from the successor       *)
(* value.  The ghost is stepped alongside, so all invariants of Machine    *)
(* (the listed properties) are evaluated by TLC at every step of every     *)
(* real execution, on graphs larger than the exhaustive configs reach.     *)
(* {"c":{"op":"reset"}} starts a new history from the empty graph, which   *)
(* lets one TLC run validate many executions.                              *)
(***************************************************************************)
EXTENDS Machine, IOUtils

CONSTANT CheckObs,   \* TRUE: validation.  FALSE: diagnosis - follow the calls, print where
                     \* the logged outcome / observers differ from the specification
         ObsFields,  \* the observers this check compares (those its property speaks of); {} = all
         MaskByHas,  \* TRUE (C03): label observers are compared only for the pairs on whose
                     \* edge-ness the real object and the specification agree
         OnlyRejected \* TRUE (C07): only the calls the specification rejects are judged: same
                     \* exception type, and the logged projection equal to the one logged before the call

Tr == ndJsonDeserialize(IOEnv.TRACE)
Proj(o) == IF ObsFields = {} THEN o ELSE [f \in (ObsFields \cap DOMAIN o) |-> o[f]]

VARIABLE l,          \* index of the next event
         div,        \* (MaskByHas) the real object and the specification disagree on which pairs
                     \* are edges: the rest of this history is not judged (until the next reset);
                     \* (OnlyRejected) the real object has left the specification's state
         prev        \* (OnlyRejected) the projection logged by the previous event

tvars == <<g, gh, last, l, div, prev>>

TInit == Init /\ l = 1 /\ div = FALSE /\ prev = Proj(Obs(Empty(0)))

TReset == /\ Tr[l].c.op = "reset"
          /\ g' = Empty(0)
          /\ gh' = GEmpty(0)
          /\ last' = [c |-> Tr[l].c, out |-> "ok"]
          /\ l' = l + 1
          /\ div' = FALSE
          /\ prev' = Proj(Obs(Empty(0)))

\* the logged projection carries exactly the compared observers (plus "inconsistent" when the
\* harness found the real observers inconsistent with each other - which never matches)
LabelFields == {"lab", "labd", "hasl"}
MaskedEq(o, e) ==        \* o: specification, e: logged
    /\ DOMAIN Proj(o) = DOMAIN e
    /\ \A f \in DOMAIN e \ (LabelFields \cup {"has"}) : Proj(o)[f] = e[f]
    /\ \A i \in 1 .. o.n : \A j \in 1 .. o.n :
          (o.has[i][j] = e.has[i][j]) =>
             /\ o.lab[i][j] = e.lab[i][j] /\ o.labd[i][j] = e.labd[i][j]
             /\ \A lb \in 1 .. 3 : o.hasl[lb][i][j] = e.hasl[lb][i][j]
\* which exception a rejected call throws is C07's subject (OnlyRejected); the other checks only
\* distinguish accepted from rejected calls
OutDiffers(ev, r) == ((r.out = "ok") # (ev.out = "ok")) /\ ~(MaskByHas /\ "out_of_range" \notin {r.out, ev.out})
Differs(ev, r) == OutDiffers(ev, r) \/ (IF MaskByHas /\ "n" \in DOMAIN ev.obs /\ ev.obs.n = r.g.n
                                       THEN ~MaskedEq(Obs(r.g), ev.obs) ELSE Proj(Obs(r.g)) # ev.obs)

TStep == /\ Tr[l].c.op # "reset"
         /\ LET ev == Tr[l]
                r  == Step(g, ev.c)
                edgesDiffer == MaskByHas /\ "has" \in DOMAIN ev.obs /\ ev.obs.has # Obs(r.g).has
                \* C07: a rejection is judged when the real object is still where the specification
                \* is, as far as the rejection depends on it (the size for out_of_range, everything
                \* for invalid_argument)
                judged == /\ r.out # "ok"
                          /\ "n" \in DOMAIN prev /\ prev.n = g.n
                          /\ (r.out = "invalid_argument" => ~div)
            IN  /\ div' = (div \/ edgesDiffer \/ (OnlyRejected /\ Proj(Obs(r.g)) # ev.obs))
                /\ prev' = ev.obs
                /\ IF OnlyRejected
                   THEN (CheckObs /\ judged) => (ev.out = r.out /\ ev.obs = prev)
                   ELSE IF div \/ edgesDiffer THEN TRUE
                   ELSE IF CheckObs THEN ~Differs(ev, r)
                   ELSE Differs(ev, r) =>
                          PrintT(ToJson([mismatch_at |-> l, call |-> ev.c,
                                         expected |-> [out |-> r.out, obs |-> Proj(Obs(r.g))],
                                         logged   |-> [out |-> ev.out, obs |-> ev.obs]]))
                /\ g' = r.g
                /\ gh' = GStep(gh, ev.c)
                /\ last' = [c |-> ev.c, out |-> r.out]
                /\ l' = l + 1

TNext == l <= Len(Tr) /\ (TReset \/ TStep)

\* accepted iff every event was consumed: one state per event plus the initial state
TraceAccepted == TLCGet("stats").diameter - 1 = Len(Tr)
=============================================================================
