----------------------------- MODULE BinFormat -----------------------------
(***************************************************************************)
(* Binary edge lists (C14) and what a truncated file loads to (C15).       *)
(*                                                                         *)
(* A file is a sequence of bytes.  A record is the source and the          *)
(* destination as 32-bit little-endian unsigned integers followed by the   *)
(* label's LabelWidth little-endian bytes (nothing for unlabelled graphs). *)
(* The writer emits one record per edge in the order edges() enumerates    *)
(* them - so a case is a graph SHAPE: the insertion sequence that built    *)
(* the adjacency lists (as in EdgeIter.tla).  The loader is a fold of      *)
(* forced addEdge over the complete records, growing the graph to the      *)
(* largest index seen (GraphOps operators).                                *)
(*                                                                         *)
(* Modes                                                                   *)
(*   "roundtrip"  every shape: length, load(write(G)) resized = G, disk    *)
(*                bytes little-endian for both host byte orders            *)
(*   "records"    hand-made files: any sequence of records over distinct   *)
(*                pairs; loading any permutation gives the same graph      *)
(*   "truncate"   the writer as a process appending ONE BYTE PER STEP:      *)
(*                every reachable state is a crash point; what is on disk  *)
(*                loads to exactly the complete records before the cut     *)
(***************************************************************************)
EXTENDS GraphOps, Json

CONSTANTS MaxN, MaxEdges,
          LabelWidth,    \* 0 (NoLabel), 1, 2, 4 or 8 bytes
          LabelVals,     \* label values (non-negative, < 2^31)
          Mode, EmitJson

VARIABLES n, ins,        \* the case: vertices and the insertion sequence <<i, j, label>>*
          out            \* "truncate": bytes written so far

vars == <<n, ins, out>>

\* ---- bytes
RECURSIVE Pow256(_)
Pow256(k) == IF k = 0 THEN 1 ELSE 256 * Pow256(k - 1)
\* w little-endian bytes of v (v < 2^31, so bytes beyond the fourth are 0)
LE(v, w) == [k \in 1 .. w |-> IF k > 4 THEN 0 ELSE (v \div Pow256(k - 1)) % 256]
FromLE(b) == LET RECURSIVE S(_)
                 S(k) == IF k > Len(b) \/ k > 4 THEN 0 ELSE b[k] * Pow256(k - 1) + S(k + 1)
             IN  S(1)
Rev(s) == [k \in 1 .. Len(s) |-> s[Len(s) + 1 - k]]
\* a value in memory on a host, and what writeBinaryValue puts on disk: the bytes are
\* swapped exactly when the host is big-endian, so the disk image is LE on every host
MemBytes(v, w, hostBE) == IF hostBE THEN Rev(LE(v, w)) ELSE LE(v, w)
DiskBytes(v, w, hostBE) == IF hostBE THEN Rev(MemBytes(v, w, hostBE)) ELSE MemBytes(v, w, hostBE)

RecSize == 8 + LabelWidth
Record(e) == LE(e[1], 4) \o LE(e[2], 4) \o LE(e[3], LabelWidth)
RECURSIVE Encode(_)
Encode(es) == IF es = <<>> THEN <<>> ELSE Record(Head(es)) \o Encode(Tail(es))

\* ---- shapes: adjacency sequences produced by an insertion sequence of distinct pairs
RECURSIVE Build(_, _)
Build(l, s) ==
    IF s = <<>> THEN l
    ELSE LET a == Head(s)[1]
             b == Head(s)[2] IN
         IF Directed THEN Build([l EXCEPT ![a] = Append(@, b)], Tail(s))
         ELSE LET l1 == IF a # b THEN [l EXCEPT ![a] = Append(@, b)] ELSE l IN
              Build([l1 EXCEPT ![b] = Append(@, a)], Tail(s))
Lists == Build([v \in VS(n) |-> <<>>], ins)
LabelOfPair(i, j) ==
    LET k == CHOOSE k \in 1 .. Len(ins) : Key(ins[k][1], ins[k][2]) = Key(i, j) IN ins[k][3]
\* edges() order: vertices ascending, each list in order, canonical half only when undirected
RECURSIVE FlattenFrom(_)
FlattenFrom(v) ==
    IF v >= n THEN <<>>
    ELSE LET RECURSIVE F(_)
             F(s) == IF s = <<>> THEN <<>>
                     ELSE (IF Directed \/ v <= Head(s) THEN <<<<v, Head(s), LabelOfPair(v, Head(s))>>>> ELSE <<>>)
                          \o F(Tail(s))
         IN  F(Lists[v]) \o FlattenFrom(v + 1)
EdgeOrder == FlattenFrom(0)

\* the graph VALUE the insertion sequence denotes
RECURSIVE AddAll(_, _)
AddAll(g, s) == IF s = <<>> THEN g
                ELSE AddAll(AddEdgeL(g, Head(s)[1], Head(s)[2], Head(s)[3], FALSE), Tail(s))
Value == AddAll(Empty(n), ins)

\* ---- the loader: complete records only
NRec(bytes) == Len(bytes) \div RecSize
RecAt(bytes, k) ==
    LET o == (k - 1) * RecSize IN
    <<FromLE(SubSeq(bytes, o + 1, o + 4)), FromLE(SubSeq(bytes, o + 5, o + 8)),
      IF LabelWidth = 0 THEN DefL ELSE FromLE(SubSeq(bytes, o + 9, o + 8 + LabelWidth))>>
LoadRecords(recs) ==
    LET RECURSIVE L(_, _)
        L(g, k) == IF k > Len(recs) THEN g
                   ELSE LET e == recs[k]
                            g1 == IF e[1] >= g.n THEN Resize(g, e[1] + 1) ELSE g
                            g2 == IF e[2] >= g1.n THEN Resize(g1, e[2] + 1) ELSE g1
                        IN  L(AddEdgeL(g2, e[1], e[2], e[3], TRUE), k + 1)
    IN  L(Empty(0), 1)
Load(bytes) == LoadRecords([k \in 1 .. NRec(bytes) |-> RecAt(bytes, k)])

\* ---- cases
CanonPairs(k) == {p \in VS(k) \X VS(k) : Directed \/ p[1] <= p[2]}
Perms(S) == {s \in [1 .. Cardinality(S) -> S] : \A i, j \in 1 .. Cardinality(S) : i # j => s[i] # s[j]}
LVals == IF LabelWidth = 0 THEN {DefL} ELSE LabelVals

CaseInit ==
    /\ n \in 0 .. MaxN
    /\ \E P \in SUBSET CanonPairs(n) :
         /\ Cardinality(P) <= MaxEdges
         /\ \E ord \in Perms(P) : \E lb \in [1 .. Cardinality(P) -> LVals] :
              \* pairs may be named in either orientation when undirected: the shape is the same
              ins = [k \in 1 .. Cardinality(P) |-> <<ord[k][1], ord[k][2], lb[k]>>]

Init == CaseInit /\ out = <<>>

\* the writer appends the file one byte at a time
WriteByte ==
    /\ Mode = "truncate"
    /\ Len(out) < Len(Encode(EdgeOrder))
    /\ out' = Append(out, Encode(EdgeOrder)[Len(out) + 1])
    /\ UNCHANGED <<n, ins>>
Next == WriteByte

-----------------------------------------------------------------------------
File == Encode(EdgeOrder)

MaxIndex == LET RECURSIVE M(_)
                M(k) == IF k > Len(ins) THEN -1
                        ELSE LET a == IF ins[k][1] >= ins[k][2] THEN ins[k][1] ELSE ins[k][2]
                                 b == M(k + 1) IN IF a >= b THEN a ELSE b
            IN  M(1)

\* C14
LengthOK == Len(File) = Len(EdgeOrder) * RecSize /\ Len(EdgeOrder) = Value.en
RoundTripOK ==
    LET g == Load(File) IN
    /\ g.n <= n
    /\ g.n = 1 + MaxIndex                     \* 1 + largest used index (0 vertices for no edge)
    /\ Resize(g, n) = Value
\* records in any order load to the same graph
PermutationOK ==
    Mode = "records" =>
        \A p \in Perms(1 .. Len(EdgeOrder)) :
            Resize(LoadRecords([k \in 1 .. Len(EdgeOrder) |-> EdgeOrder[p[k]]]), n) = Value
\* the same bytes on disk whatever the host byte order; they are the little-endian image
DiskIsLE == \A v \in {0, 1, 258, 16909060} : \A w \in {1, 2, 4, 8} : \A be \in BOOLEAN :
                DiskBytes(v, w, be) = LE(v, w)
\* C15: every crash point of the writer loads to exactly the complete records before the cut
TruncationOK ==
    LET k == Len(out) \div RecSize IN
    /\ Load(out) = LoadRecords(SubSeq(EdgeOrder, 1, k))
    /\ Load(out).en = k

EmitCase ==
    EmitJson =>
      CASE Mode = "roundtrip" ->
             PrintT(ToJson([k |-> "bin_roundtrip", dir |-> Directed, n |-> n, w |-> LabelWidth, ins |-> ins,
                            bytes |-> File, loaded |-> Enc(Load(File)), value |-> Enc(Value)]))
        [] Mode = "records" ->
             \* one hand-made file per case: the records in REVERSE enumeration order
             LET f == Encode(Rev(EdgeOrder)) IN
             PrintT(ToJson([k |-> "bin_load", dir |-> Directed, w |-> LabelWidth, bytes |-> f,
                            loaded |-> Enc(Load(f))]))
        [] OTHER -> TRUE
EmitInv == (out = <<>>) => EmitCase
EmitCut == (EmitJson /\ Mode = "truncate") =>
             PrintT(ToJson([k |-> "bin_load", dir |-> Directed, w |-> LabelWidth, bytes |-> out',
                            loaded |-> Enc(Load(out')), cut |-> Len(out') < Len(File)]))
=============================================================================
