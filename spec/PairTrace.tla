----------------------------- MODULE PairTrace -----------------------------
(***************************************************************************)
(* code -> spec for C06 on larger graphs: the harness builds PAIRS of real *)
(* objects by random histories on 4-24 vertices that frequently denote the *)
(* same graph (the same edits in different orders and orientations, edges  *)
(* added and removed again, copies that are changed and changed back) and  *)
(* logs, per pair, the two abstract graphs the objects show through the    *)
(* public API together with the verdicts of ==, != in both directions.     *)
(* Each record must satisfy the statement of C06: == is true iff same      *)
(* vertices, same edges, equal attributes; symmetric; reflexive; != is its *)
(* negation.                                                               *)
(***************************************************************************)
EXTENDS Integers, Sequences, TLC, Json, IOUtils

Recs == ndJsonDeserialize(IOEnv.RECORDS)
VARIABLE idx
Init == idx \in 1 .. Len(Recs)
Next == UNCHANGED idx

AdtEq(a, b) == a.n = b.n /\ a.has = b.has /\ a.att = b.att
PairRecordOK ==
    LET r == Recs[idx] IN
    /\ r.e12 = AdtEq(r.a, r.b) /\ r.e21 = AdtEq(r.a, r.b)
    /\ r.e11 /\ r.e22
    /\ r.ne12 = ~r.e12 /\ r.ne21 = ~r.e21
=============================================================================
