------------------------------ MODULE GraphOps ------------------------------
(***************************************************************************)
(* BaseGraph's eight graph classes as PURE OPERATORS ON GRAPH VALUES.      *)
(*                                                                         *)
(* A graph value is a record shaped like the C++ object:                   *)
(*   n    number of vertices                      (size)                   *)
(*   adj  adj[i][j] = how many times j occurs in adjacencyList[i]          *)
(*        (a bag: neighbour ORDER is deliberately not modelled)            *)
(*   lab  lab[i][j] = value stored in edgeLabels under the key (i,j),      *)
(*        NoneL when the map has no such key                               *)
(*   en   the cached counter edgeNumber                                    *)
(*   tot  the cached totalEdgeNumber (multigraphs) / totalWeight (weighted)*)
(*                                                                         *)
(* Every public mutator of the classes is one operator here, written the   *)
(* way the code is written (which list is searched, under which key the    *)
(* label is stored, which half of an undirected edge decrements the        *)
(* counter, ...), so that the agreement of the cached counters and the     *)
(* label map with the graph the history denotes is a question about        *)
(* reachable states - decided by TLC in Machine.tla - and not built in.    *)
(* Step(g, call) dispatches a call record to its operator and returns the  *)
(* successor value together with the documented outcome; it is the single  *)
(* definition used by the state machine, by the two-object product         *)
(* (Pair.tla), by the derived constructions (Derived.tla), by the file     *)
(* loaders' folds and by trace validation of recorded executions.          *)
(*                                                                         *)
(* Pinned is a set of defect ids (DESIGN.md section 6); with an id in the  *)
(* set the operator reproduces the behaviour of the tree BEFORE the        *)
(* corresponding "fix:" commit.  It is {} in every config that decides a   *)
(* property; the negative configs use it to show the invariants can fail.  *)
(***************************************************************************)
EXTENDS Integers, FiniteSets, Sequences, TLC

CONSTANTS Directed,   \* TRUE: LabeledDirectedGraph family, FALSE: LabeledUndirectedGraph family
          Kind,       \* "nolabel" | "labeled" | "multi" | "weighted"
          Pinned      \* subset of {"D1","D2","D3","D4","D5","D8"}

ASSUME Directed \in BOOLEAN
ASSUME Kind \in {"nolabel", "labeled", "multi", "weighted"}

NoneL  == -99         \* "no entry in edgeLabels"; no label, weight or multiplicity is -99
DefL   == 0           \* EdgeLabel(): the default-constructed label / 0 multiplicity / weight 0.0
MAXU   == -1          \* stands for UINT_MAX in out-of-range arguments (TLC ints are 32 bit)

VS(n)      == 0 .. (n - 1)
ZeroMat(n) == [i \in VS(n) |-> [j \in VS(n) |-> 0]]
NoneMat(n) == [i \in VS(n) |-> [j \in VS(n) |-> NoneL]]
Empty(n)   == [n |-> n, adj |-> ZeroMat(n), lab |-> NoneMat(n), en |-> 0, tot |-> 0]

InRange(g, v) == v \in VS(g.n)

\* orderedEdge (undirected_graph.hpp): labels and hasEdge use the (min,max) key
Key(i, j) == IF Directed \/ i < j THEN <<i, j>> ELSE <<j, i>>
K1(i, j)  == Key(i, j)[1]
K2(i, j)  == Key(i, j)[2]

\* apply Op(g, v) for v = 0, 1, ..., n-1 in that order ("for (VertexIndex i : *this)")
ForEachVertex(Op(_, _), g) ==
    LET f[k \in 0 .. g.n] == IF k = 0 THEN g ELSE Op(f[k - 1], k - 1) IN f[g.n]

RECURSIVE SumTo(_, _)
SumTo(f, k) == IF k < 0 THEN 0 ELSE f[k] + SumTo(f, k - 1)      \* f[0]+...+f[k]
SumVec(f, n) == SumTo(f, n - 1)
SumMat(m, n) == SumVec([i \in VS(n) |-> SumVec(m[i], n)], n)

-----------------------------------------------------------------------------
(* Reading the representation the way the code does                         *)

\* LabeledDirectedGraph::hasEdge searches adjacencyList[source]; the undirected
\* class first orders the pair.
HasEdge(g, i, j) == g.adj[K1(i, j)][K2(i, j)] > 0
StoredLabel(g, i, j) == g.lab[K1(i, j)][K2(i, j)]                 \* NoneL if absent
\* getEdgeLabel(i, j, false): EdgeLabel() when absent
LabelOrDefault(g, i, j) == IF StoredLabel(g, i, j) = NoneL THEN DefL ELSE StoredLabel(g, i, j)
HasDuplicates(g) == \E i, j \in VS(g.n) : g.adj[i][j] > 1

SetLab(g, i, j, l) == [g EXCEPT !.lab[K1(i, j)][K2(i, j)] = l]
\* _setLabel is a no-op for NoLabel
PutLabel(g, i, j, l) == IF Kind = "nolabel" THEN g ELSE SetLab(g, i, j, l)
EraseLab(g, i, j)  == SetLab(g, i, j, NoneL)

\* push_back on the adjacency lists: one entry for a directed edge or a self-loop,
\* one entry in each endpoint's list otherwise
PushEdge(g, i, j) ==
    IF Directed \/ i = j THEN [g EXCEPT !.adj[i][j] = @ + 1]
    ELSE [g EXCEPT !.adj[i][j] = @ + 1, !.adj[j][i] = @ + 1]

-----------------------------------------------------------------------------
(* resize                                                                   *)
Resize(g, k) ==
    [g EXCEPT !.n   = k,
              !.adj = [i \in VS(k) |-> [j \in VS(k) |->
                          IF i < g.n /\ j < g.n THEN g.adj[i][j] ELSE 0]],
              !.lab = [i \in VS(k) |-> [j \in VS(k) |->
                          IF i < g.n /\ j < g.n THEN g.lab[i][j] ELSE NoneL]]]

-----------------------------------------------------------------------------
(* LabeledDirectedGraph<L> / LabeledUndirectedGraph<L>                      *)

\* addEdge(i, j, label, force)                 directed_graph.hpp / undirected_graph.hpp
AddEdgeL(g, i, j, l, f) ==
    IF f \/ ~HasEdge(g, i, j)
    THEN LET g1 == PushEdge(g, i, j) IN
         [PutLabel(g1, i, j, l) EXCEPT !.en = @ + 1]
    ELSE g

\* removeEdge(i, j): removes every copy
RemoveEdgeL(g, i, j) ==
    IF Directed
    THEN \* list.remove, counter -= removed copies, label ALWAYS erased
         [EraseLab(g, i, j) EXCEPT !.adj[i][j] = 0, !.en = @ - g.adj[i][j]]
    ELSE \* looks in vertex1's list for vertex2 (pair as given); only when something
         \* was removed: other endpoint's list, counter, label
         IF g.adj[i][j] > 0
         THEN [EraseLab(g, i, j) EXCEPT !.adj[i][j] = 0, !.adj[j][i] = 0,
                                        !.en = @ - g.adj[i][j]]
         ELSE g

\* removeDuplicateEdges: keep the first occurrence of each neighbour in each list.
\* The undirected classes decrement the counter only on the "i <= j" half.
DedupGeneric(g, LabelOf(_, _)) ==
    LET extra(i, j)   == IF g.adj[i][j] > 1 THEN g.adj[i][j] - 1 ELSE 0
        counted(i, j) == IF Directed \/ i <= j THEN extra(i, j) ELSE 0
    IN  [g EXCEPT !.adj = [i \in VS(g.n) |-> [j \in VS(g.n) |->
                              IF g.adj[i][j] > 1 THEN 1 ELSE g.adj[i][j]]],
                  !.en  = @ - SumMat([i \in VS(g.n) |-> [j \in VS(g.n) |-> counted(i, j)]], g.n),
                  !.tot = @ - SumMat([i \in VS(g.n) |-> [j \in VS(g.n) |->
                                        counted(i, j) * LabelOf(i, j)]], g.n)]
RemoveDuplicateEdgesL(g) == DedupGeneric(g, LAMBDA i, j : 0)

RemoveSelfLoopsL(g) == ForEachVertex(LAMBDA h, i : RemoveEdgeL(h, i, i), g)

\* removeVertexFromEdgeList(v)
RemoveVertexL(g, v) ==
    IF Directed
    THEN \* 1. empty v's own list, one counter decrement per element, (since the
         \*    fix for D2) erasing the label of each removed out-edge
         \* 2. removeEdge(i, v) for every i
         LET g1 == [g EXCEPT !.adj[v] = [j \in VS(g.n) |-> 0],
                             !.en     = @ - SumVec(g.adj[v], g.n),
                             !.lab[v] = [j \in VS(g.n) |->
                                           IF g.adj[v][j] > 0 /\ "D2" \notin Pinned
                                           THEN NoneL ELSE g.lab[v][j]]]
         IN  ForEachVertex(LAMBDA h, i : RemoveEdgeL(h, i, v), g1)
    ELSE \* one pass over every list erasing entries with i = v or *j = v; the counter
         \* is decremented for the i <= *j half only; (since the fix for D3) the labels
         \* of all pairs containing v are erased afterwards
         LET hit(i, j)     == i = v \/ j = v
             counted(i, j) == IF hit(i, j) /\ i <= j THEN g.adj[i][j] ELSE 0
             g1 == [g EXCEPT !.adj = [i \in VS(g.n) |-> [j \in VS(g.n) |->
                                        IF hit(i, j) THEN 0 ELSE g.adj[i][j]]],
                             !.en  = @ - SumMat([i \in VS(g.n) |-> [j \in VS(g.n) |->
                                                   counted(i, j)]], g.n)]
         IN  IF "D3" \in Pinned THEN g1
             ELSE ForEachVertex(LAMBDA h, i : EraseLab(h, i, v), g1)

\* clearEdges (since the fix for D1 the label map is cleared too)
ClearEdgesAny(g) ==
    [g EXCEPT !.adj = ZeroMat(g.n), !.en = 0, !.tot = 0,
              !.lab = IF "D1" \in Pinned THEN g.lab ELSE NoneMat(g.n)]

-----------------------------------------------------------------------------
(* DirectedMultigraph / UndirectedMultigraph  (label = multiplicity)        *)

\* edgeLabels[key] on a missing key default-constructs 0
StoredOr0(g, i, j) == LabelOrDefault(g, i, j)

AddMultiedge(g, i, j, k, f) ==
    IF k = 0 THEN g
    ELSE IF f \/ ~HasEdge(g, i, j)
         THEN \* BaseClass::addEdge(i, j, k, true); totalEdgeNumber += k
              [AddEdgeL(g, i, j, k, TRUE) EXCEPT !.tot = @ + k]
         ELSE [SetLab(g, i, j, StoredOr0(g, i, j) + k) EXCEPT !.tot = @ + k]

\* removeMultiedge(i, j, k): finds the FIRST occurrence of j in i's list (pair as given)
RemoveMultiedge(g, i, j, k) ==
    IF g.adj[i][j] = 0 THEN g
    ELSE LET cur == StoredOr0(g, i, j) IN
         IF cur > k
         THEN [SetLab(g, i, j, cur - k) EXCEPT !.tot = @ - k]
         ELSE \* erases ONE element of i's list; the undirected class then removes
              \* every occurrence of i from j's list
              LET g1 == [g EXCEPT !.adj[i][j] = @ - 1, !.en = @ - 1, !.tot = @ - cur]
                  g2 == IF Directed \/ i = j THEN g1 ELSE [g1 EXCEPT !.adj[j][i] = 0]
              IN  EraseLab(g2, i, j)

\* private removeAllEdges(i, j)
RemoveAllEdgesM(g, i, j) ==
    IF Directed
    THEN [EraseLab(g, i, j) EXCEPT !.adj[i][j] = 0, !.en = @ - g.adj[i][j],
                                   !.tot = @ - LabelOrDefault(g, i, j) * g.adj[i][j]]
    ELSE IF g.adj[i][j] > 0
         THEN [EraseLab(g, i, j) EXCEPT !.adj[i][j] = 0, !.adj[j][i] = 0,
                                        !.en = @ - g.adj[i][j],
                                        !.tot = @ - LabelOrDefault(g, i, j) * g.adj[i][j]]
         ELSE g

SetEdgeMultiplicity(g, i, j, k) ==
    IF k = 0
    THEN IF ~Directed /\ "D4" \in Pinned THEN RemoveMultiedge(g, i, j, 1)
         ELSE RemoveAllEdgesM(g, i, j)
    ELSE IF HasEdge(g, i, j)
         THEN [SetLab(g, i, j, k) EXCEPT !.tot = @ + k - StoredOr0(g, i, j)]
         ELSE AddMultiedge(g, i, j, k, TRUE)

RemoveDuplicateEdgesM(g) == DedupGeneric(g, LAMBDA i, j : LabelOrDefault(g, i, j))
RemoveSelfLoopsM(g) == ForEachVertex(LAMBDA h, i : RemoveAllEdgesM(h, i, i), g)

\* shared by the multigraph and weighted classes: the first pass subtracts the stored
\* label once per removed list element
RemoveVertexTotals(g, v, RemoveIn(_, _, _)) ==
    IF Directed
    THEN LET g1 == [g EXCEPT !.adj[v] = [j \in VS(g.n) |-> 0],
                             !.en     = @ - SumVec(g.adj[v], g.n),
                             !.tot    = @ - SumVec([j \in VS(g.n) |->
                                               g.adj[v][j] * LabelOrDefault(g, v, j)], g.n),
                             !.lab[v] = [j \in VS(g.n) |->
                                           IF g.adj[v][j] > 0 /\ "D2" \notin Pinned
                                           THEN NoneL ELSE g.lab[v][j]]]
         IN  ForEachVertex(LAMBDA h, i : RemoveIn(h, i, v), g1)
    ELSE LET hit(i, j)     == i = v \/ j = v
             counted(i, j) == IF hit(i, j) /\ i <= j THEN g.adj[i][j] ELSE 0
             g1 == [g EXCEPT !.adj = [i \in VS(g.n) |-> [j \in VS(g.n) |->
                                        IF hit(i, j) THEN 0 ELSE g.adj[i][j]]],
                             !.en  = @ - SumMat([i \in VS(g.n) |-> [j \in VS(g.n) |->
                                                   counted(i, j)]], g.n),
                             !.tot = @ - SumMat([i \in VS(g.n) |-> [j \in VS(g.n) |->
                                                   counted(i, j) * LabelOrDefault(g, i, j)]], g.n)]
         IN  IF "D3" \in Pinned THEN g1
             ELSE ForEachVertex(LAMBDA h, i : EraseLab(h, i, v), g1)

RemoveVertexM(g, v) == RemoveVertexTotals(g, v, RemoveAllEdgesM)

-----------------------------------------------------------------------------
(* DirectedWeightedGraph / UndirectedWeightedGraph  (label = weight)        *)

AddEdgeW(g, i, j, w, f) ==
    IF f \/ ~HasEdge(g, i, j)
    THEN [SetLab(PushEdge(g, i, j), i, j, w) EXCEPT !.en = @ + 1, !.tot = @ + w]
    ELSE g

RemoveEdgeW(g, i, j) == RemoveAllEdgesM(g, i, j)      \* same text as removeAllEdges

SetEdgeWeight(g, i, j, w) ==
    IF HasEdge(g, i, j)
    THEN IF ~Directed /\ "D5" \in Pinned
         THEN \* pre-fix: edgeLabels[{vertex1, vertex2}] - the pair AS GIVEN
              LET cur == IF g.lab[i][j] = NoneL THEN 0 ELSE g.lab[i][j] IN
              [g EXCEPT !.lab[i][j] = w, !.tot = @ + w - cur]
         ELSE [SetLab(g, i, j, w) EXCEPT !.tot = @ + w - StoredOr0(g, i, j)]
    ELSE AddEdgeW(g, i, j, w, FALSE)

RemoveSelfLoopsW(g) == ForEachVertex(LAMBDA h, i : RemoveEdgeW(h, i, i), g)
RemoveVertexW(g, v) == RemoveVertexTotals(g, v, RemoveEdgeW)

-----------------------------------------------------------------------------
(* Calls.  A call is a record [op |-> ..., args ...]; Step returns the new  *)
(* value and the documented outcome: "ok", "out_of_range" (a vertex index   *)
(* >= size; nothing may change) or "invalid_argument".                      *)

Ok(g)      == [g |-> g, out |-> "ok"]
Oor(g)     == [g |-> g, out |-> "out_of_range"]
Inv(g)     == [g |-> g, out |-> "invalid_argument"]

Guard2(g, i, j, r) == IF InRange(g, i) /\ InRange(g, j) THEN Ok(r) ELSE Oor(g)
Guard1(g, v, r)    == IF InRange(g, v) THEN Ok(r) ELSE Oor(g)

Step(g, c) ==
    CASE c.op = "resize" ->
            IF c.k < g.n THEN Inv(g) ELSE Ok(Resize(g, c.k))
      \* The VALUE moves to another object (c.how: copy-assigned or move-assigned into a fresh
      \* object, move-constructed, swapped with a fresh object) or is assigned to itself; the history
      \* continues on the object that now holds it.  The graph is a value: nothing changes.
      [] c.op = "relocate" -> Ok(g)
      [] c.op = "clearEdges" -> Ok(ClearEdgesAny(g))
      \* ------------------------------------------------ labelled / unlabelled
      [] c.op = "addEdge" /\ Kind \in {"nolabel", "labeled"} ->
            IF InRange(g, c.i) /\ InRange(g, c.j)
            THEN Ok(AddEdgeL(g, c.i, c.j, c.l, c.f)) ELSE Oor(g)
      [] c.op = "addEdgeD" /\ Kind \in {"nolabel", "labeled"} ->     \* overload using EdgeLabel()
            IF InRange(g, c.i) /\ InRange(g, c.j)
            THEN Ok(AddEdgeL(g, c.i, c.j, DefL, c.f)) ELSE Oor(g)
      [] c.op = "addReciprocalEdge" /\ Kind \in {"nolabel", "labeled"} ->
            IF InRange(g, c.i) /\ InRange(g, c.j)
            THEN Ok(AddEdgeL(AddEdgeL(g, c.i, c.j, c.l, c.f), c.j, c.i, c.l, c.f)) ELSE Oor(g)
      [] c.op = "removeEdge" /\ Kind \in {"nolabel", "labeled"} ->
            IF InRange(g, c.i) /\ InRange(g, c.j) THEN Ok(RemoveEdgeL(g, c.i, c.j)) ELSE Oor(g)
      [] c.op = "setEdgeLabel" ->
            IF ~(InRange(g, c.i) /\ InRange(g, c.j)) THEN Oor(g)
            ELSE IF ~c.f /\ ~HasEdge(g, c.i, c.j) THEN Inv(g)
            ELSE Ok(PutLabel(g, c.i, c.j, c.l))
      [] c.op = "removeDuplicateEdges" /\ Kind \in {"nolabel", "labeled"} ->
            Ok(RemoveDuplicateEdgesL(g))
      [] c.op = "removeSelfLoops" /\ Kind \in {"nolabel", "labeled"} -> Ok(RemoveSelfLoopsL(g))
      [] c.op = "removeVertexFromEdgeList" /\ Kind \in {"nolabel", "labeled"} ->
            IF InRange(g, c.v) THEN Ok(RemoveVertexL(g, c.v)) ELSE Oor(g)
      \* ------------------------------------------------ multigraphs
      [] c.op = "addEdge" /\ Kind = "multi" ->
            IF InRange(g, c.i) /\ InRange(g, c.j)
            THEN Ok(AddMultiedge(g, c.i, c.j, 1, c.f)) ELSE Oor(g)
      [] c.op = "addReciprocalEdge" /\ Kind = "multi" ->
            IF InRange(g, c.i) /\ InRange(g, c.j)
            THEN Ok(AddMultiedge(AddMultiedge(g, c.i, c.j, 1, c.f), c.j, c.i, 1, c.f)) ELSE Oor(g)
      [] c.op = "addMultiedge" ->
            IF InRange(g, c.i) /\ InRange(g, c.j)
            THEN Ok(AddMultiedge(g, c.i, c.j, c.k, c.f)) ELSE Oor(g)
      [] c.op = "addReciprocalMultiedge" ->
            IF InRange(g, c.i) /\ InRange(g, c.j)
            THEN Ok(AddMultiedge(AddMultiedge(g, c.i, c.j, c.k, c.f), c.j, c.i, c.k, c.f))
            ELSE Oor(g)
      [] c.op = "removeEdge" /\ Kind = "multi" ->
            IF InRange(g, c.i) /\ InRange(g, c.j)
            THEN Ok(RemoveMultiedge(g, c.i, c.j, 1)) ELSE Oor(g)
      [] c.op = "removeMultiedge" ->
            IF InRange(g, c.i) /\ InRange(g, c.j)
            THEN Ok(RemoveMultiedge(g, c.i, c.j, c.k)) ELSE Oor(g)
      [] c.op = "setEdgeMultiplicity" ->
            IF InRange(g, c.i) /\ InRange(g, c.j)
            THEN Ok(SetEdgeMultiplicity(g, c.i, c.j, c.k)) ELSE Oor(g)
      [] c.op = "removeDuplicateEdges" /\ Kind \in {"multi", "weighted"} ->
            Ok(RemoveDuplicateEdgesM(g))
      [] c.op = "removeSelfLoops" /\ Kind = "multi" -> Ok(RemoveSelfLoopsM(g))
      [] c.op = "removeVertexFromEdgeList" /\ Kind = "multi" ->
            IF InRange(g, c.v) THEN Ok(RemoveVertexM(g, c.v)) ELSE Oor(g)
      \* ------------------------------------------------ weighted graphs
      [] c.op = "addEdge" /\ Kind = "weighted" ->
            IF InRange(g, c.i) /\ InRange(g, c.j)
            THEN Ok(AddEdgeW(g, c.i, c.j, c.w, c.f)) ELSE Oor(g)
      \* NAMED DEVIATION (outside every listed property): the directed weighted class's
      \* addReciprocalEdge(i, j, force) forwards `force` as the WEIGHT of two unforced adds
      [] c.op = "addReciprocalEdge" /\ Kind = "weighted" ->
            IF InRange(g, c.i) /\ InRange(g, c.j)
            THEN LET w == IF c.f THEN 1 ELSE 0 IN
                 Ok(AddEdgeW(AddEdgeW(g, c.i, c.j, w, FALSE), c.j, c.i, w, FALSE))
            ELSE Oor(g)
      [] c.op = "removeEdge" /\ Kind = "weighted" ->
            IF InRange(g, c.i) /\ InRange(g, c.j) THEN Ok(RemoveEdgeW(g, c.i, c.j)) ELSE Oor(g)
      [] c.op = "setEdgeWeight" ->
            IF InRange(g, c.i) /\ InRange(g, c.j)
            THEN Ok(SetEdgeWeight(g, c.i, c.j, c.w)) ELSE Oor(g)
      [] c.op = "removeSelfLoops" /\ Kind = "weighted" -> Ok(RemoveSelfLoopsW(g))
      [] c.op = "removeVertexFromEdgeList" /\ Kind = "weighted" ->
            IF InRange(g, c.v) THEN Ok(RemoveVertexW(g, c.v)) ELSE Oor(g)
      \* ------------------------------------------------ observers that can be rejected
      \* (they never change the value; listed so that rejected reads are calls too)
      [] c.op \in {"hasEdge", "getEdgeLabelNoThrow", "getEdgeMultiplicity"} ->
            IF InRange(g, c.i) /\ InRange(g, c.j) THEN Ok(g) ELSE Oor(g)
      [] c.op \in {"getEdgeLabel", "getEdgeWeight"} ->
            IF ~(InRange(g, c.i) /\ InRange(g, c.j)) THEN Oor(g)
            ELSE IF Kind # "nolabel" /\ StoredLabel(g, c.i, c.j) = NoneL THEN Inv(g)
            ELSE Ok(g)
      [] c.op \in {"getOutNeighbours", "getOutDegree", "getInDegree", "getDegree",
                   "assertVertexInRange"} ->
            IF InRange(g, c.v) THEN Ok(g) ELSE Oor(g)

-----------------------------------------------------------------------------
(* Observers, transcribed from the const methods.  Obs(g) is the complete   *)
(* projection that both the C++ harness (from the real object, through the  *)
(* public API only) and the specification (from the value) compute; the     *)
(* two are compared field by field after every call.                        *)

Mult(g, i, j) == LabelOrDefault(g, i, j)           \* getEdgeMultiplicity: 0 when no entry
\* hasEdge(i, j, label) == hasEdge(i, j) && getEdgeLabel(i, j, false) == label
HasEdgeL(g, i, j, l) ==
    HasEdge(g, i, j) /\ (Kind = "nolabel" \/ LabelOrDefault(g, i, j) = l)

\* the sequence edges() yields, as a bag: every list element of the directed classes;
\* the elements with vertex <= neighbour of the undirected ones
EdgeCount(g, i, j) == IF Directed \/ i <= j THEN g.adj[i][j] ELSE 0

OutDegree(g, i) ==
    IF Kind = "multi" THEN SumVec([j \in VS(g.n) |-> g.adj[i][j] * Mult(g, i, j)], g.n)
    ELSE SumVec(g.adj[i], g.n)
\* in-degrees count over edges()
InDegree(g, v) ==
    SumVec([i \in VS(g.n) |-> EdgeCount(g, i, v) *
               (IF Kind = "multi" THEN LabelOrDefault(g, i, v) ELSE 1)], g.n)
\* undirected getDegree(v, countSelfLoopsTwice)
Degree(g, v, twice) ==
    SumVec([j \in VS(g.n) |-> g.adj[v][j] * (IF twice /\ j = v THEN 2 ELSE 1) *
               (IF Kind = "multi" THEN Mult(g, v, j) ELSE 1)], g.n)
AdjMatrix(g, twice) ==
    [i \in VS(g.n) |-> [j \in VS(g.n) |->
        (IF Directed THEN EdgeCount(g, i, j)
         ELSE g.adj[i][j] * (IF twice /\ i = j THEN 2 ELSE 1)) *
        (IF Kind = "multi" THEN Mult(g, i, j) ELSE 1)]]
WeightMatrix(g) ==
    [i \in VS(g.n) |-> [j \in VS(g.n) |->
        IF g.adj[i][j] > 0 THEN LabelOrDefault(g, i, j) ELSE 0]]

\* JSON-friendly encodings (1-based sequences become JSON arrays)
SeqV(f, n) == [i \in 1 .. n |-> f[i - 1]]
SeqM(m, n) == [i \in 1 .. n |-> [j \in 1 .. n |-> m[i - 1][j - 1]]]
B2I(b) == IF b THEN 1 ELSE 0

Enc(g) == [n |-> g.n, adj |-> SeqM(g.adj, g.n), lab |-> SeqM(g.lab, g.n),
           en |-> g.en, tot |-> g.tot]

Obs(g) ==
    LET n == g.n
        common ==
          [n     |-> n,
           en    |-> g.en,                                       \* getEdgeNumber
           noedge |-> B2I(\A i, j \in VS(n) : EdgeCount(g, i, j) = 0), \* edges().begin() == edges().end()
           nbr   |-> SeqM(g.adj, n),                             \* getOutNeighbours as bags
           has   |-> SeqM([i \in VS(n) |-> [j \in VS(n) |-> B2I(HasEdge(g, i, j))]], n),
           edges |-> SeqM([i \in VS(n) |-> [j \in VS(n) |-> EdgeCount(g, i, j)]], n),
           lab   |-> SeqM([i \in VS(n) |-> [j \in VS(n) |->      \* getEdgeLabel: NoneL = throws
                        IF Kind = "nolabel" THEN NoneL ELSE StoredLabel(g, i, j)]], n),
           labd  |-> SeqM([i \in VS(n) |-> [j \in VS(n) |->      \* getEdgeLabel(.,.,false)
                        IF Kind = "nolabel" THEN DefL ELSE LabelOrDefault(g, i, j)]], n),
           hasl  |-> [l \in 1 .. 3 |->                           \* hasEdge(i, j, label l-1)
                        SeqM([i \in VS(n) |-> [j \in VS(n) |-> B2I(HasEdgeL(g, i, j, l - 1))]], n)]]
        dirpart ==
          IF Directed
          THEN [outdeg |-> SeqV([i \in VS(n) |-> OutDegree(g, i)], n),
                indeg  |-> SeqV([i \in VS(n) |-> InDegree(g, i)], n),
                mat    |-> SeqM(AdjMatrix(g, TRUE), n)]
          ELSE [deg2   |-> SeqV([i \in VS(n) |-> Degree(g, i, TRUE)], n),
                deg1   |-> SeqV([i \in VS(n) |-> Degree(g, i, FALSE)], n),
                mat    |-> SeqM(AdjMatrix(g, TRUE), n),
                mat1   |-> SeqM(AdjMatrix(g, FALSE), n)]
        kindpart ==
          CASE Kind = "multi"    -> [tot |-> g.tot,                \* getTotalEdgeNumber
                                     mult |-> SeqM([i \in VS(n) |-> [j \in VS(n) |-> Mult(g, i, j)]], n)]
            [] Kind = "weighted" -> [tot |-> g.tot, wmat |-> SeqM(WeightMatrix(g), n)]
            [] OTHER             -> [tot |-> 0]
    IN  common @@ dirpart @@ kindpart
=============================================================================
